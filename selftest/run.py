#!/usr/bin/env python3
"""Sensitivity self-test of the checks (not a MANIFEST command).

Applies one realistic, compiling mutant of pion/rtp at a time to /repo's working
tree (never committed), runs the quick check of the properties it should break,
and restores the tree. A mutant is "killed" when the check exits 1 with a
VIOLATION line. Two sources of mutants:
  * every `fix:` commit reverted (the original defect comes back), and
  * hand-written mutants below (the "must-kill" lists of DESIGN.md section 4).
Also runs the pinned unit tests against each mutant to record whether the
existing suite would have noticed.

usage: selftest/run.py [name-substring ...]     results -> selftest/RESULTS.md
"""
import json
import os
import subprocess
import sys
import time

ROOT = os.path.dirname(os.path.dirname(os.path.abspath(__file__)))
REPO = "/repo"

# (name, file, old, new, [properties expected to fail])
HAND = [
    # usage-state mutants (rounds 6-7 lessons): results retained by the caller, receivers/payloaders reused, shared storage
    ("c10-h264-output-buffer-reused", "codecs/h264_packet.go",
     ["\tfuaBuffer []byte\n\n\tvideoDepacketizer", "\t\t\treturn p.doPackaging(nil, nalu), nil\n"],
     ["\tfuaBuffer []byte\n\toutBuf    []byte\n\n\tvideoDepacketizer", "\t\t\tp.outBuf = p.doPackaging(p.outBuf[:0], nalu)\n\n\t\t\treturn p.outBuf, nil\n"], ["C10"]),
    ("c16-g722-scratch-buffer-kept", "codecs/g722_packet.go",
     ["type G722Payloader struct{}", "\to := make([]byte, len(payload))\n\tcopy(o, payload)\n\n\treturn append(out, o)"],
     ["type G722Payloader struct{ last []byte }", "\tif cap(p.last) < len(payload) {\n\t\tp.last = make([]byte, len(payload))\n\t}\n\to := p.last[:len(payload)]\n\tcopy(o, payload)\n\n\treturn append(out, o)"], ["C16", "C08"]),
    ("c18-estimate-in-receive-zone", "abssendtimeextension.go", "\treturn toTime(ntp)\n}", "\test := toTime(ntp)\n\t_, off := receive.Zone()\n\n\treturn est.Add(-time.Duration(off) * time.Second)\n}", ["C18"]),
    # round-16 lessons (adversarial authors who were told what the generators vary)
    ("c08-opus-empty-at-mtu-zero", "codecs/opus_packet.go", "func (p *OpusPayloader) Payload(_ uint16, payload []byte) [][]byte {\n\tif payload == nil {",
     "func (p *OpusPayloader) Payload(mtu uint16, payload []byte) [][]byte {\n\tif payload == nil || mtu == 0 {", ["C08"]),
    ("c03-raw-view-refuses-appbits", "header_extension.go", "if profile == headerExtensionProfileOneByte || profile == headerExtensionProfileTwoByte {",
     "if profile == headerExtensionProfileOneByte || profile&0xFFF0 == headerExtensionProfileTwoByte {", ["C03"]),
    ("c06-ntp-seconds-saturate", "abssendtimeextension.go", "\ts += 0x83AA7E80 // offset in seconds between unix epoch and ntp epoch\n",
     "\ts += 0x83AA7E80 // offset in seconds between unix epoch and ntp epoch\n\tif s > 0xFFFFFFFF {\n\t\ts = 0xFFFFFFFF\n\t}\n", ["C06"]),
    ("c17-offset-pointer-kept-when-equal", "abscapturetimeextension.go", "\t\tt.EstimatedCaptureClockOffset = &offset\n",
     "\t\tif cur := t.EstimatedCaptureClockOffset; cur == nil || *cur != offset {\n\t\t\tt.EstimatedCaptureClockOffset = &offset\n\t\t}\n", ["C17"]),
    ("c14-start-code-only-at-offset-zero", "codecs/h264_packet.go", "\tstart := bytes.Index(nals, naluStartCode)\n\toffset := 3\n",
     "\tstart := -1\n\tswitch {\n\tcase bytes.HasPrefix(nals, naluStartCode):\n\t\tstart = 0\n\tcase bytes.HasPrefix(nals, annexbNALUStartCode):\n\t\tstart = 1\n\t}\n\toffset := 3\n", ["C14", "C10"]),
    ("c20-repeated-id-not-detached", "packet.go", "\t\tfor i, e := range h.Extensions {\n\t\t\text[i] = e\n\t\t\tif e.payload != nil {",
     "\t\tvar detached [256]bool\n\t\tfor i, e := range h.Extensions {\n\t\t\text[i] = e\n\t\t\tif e.payload != nil && !detached[e.id] {\n\t\t\t\tdetached[e.id] = true", ["C20"]),
    ("c01-drop-last-csrc", "packet.go", "for _, csrc := range h.CSRC {\n\t\tbinary.BigEndian.PutUint32(buf[n:n+4], csrc)",
     "for i, csrc := range h.CSRC {\n\t\tif i == 14 {\n\t\t\tcsrc = 0\n\t\t}\n\t\tbinary.BigEndian.PutUint32(buf[n:n+4], csrc)", ["C01"]),
    ("c01-ext-rounding", "packet.go", "\t\tsize += ((extSize + 3) / 4) * 4\n", "\t\tsize += ((extSize + 4) / 4) * 4\n", ["C01", "C04"]),
    ("c02-remove-ext-guard", "packet.go", "\t\tif len(buf) < extensionEnd {\n\t\t\treturn n, fmt.Errorf(\"size %d < %d: %w\", len(buf), extensionEnd, errHeaderSizeInsufficientForExtension)\n\t\t}\n",
     "", ["C02"]),
    ("c02-forget-extensions-reset", "packet.go", "\tif h.Extensions != nil {\n\t\th.Extensions = h.Extensions[:0]\n\t}\n", "", ["C02"]),
    ("c02-forget-paddingsize-reset", "packet.go", "\t} else {\n\t\tp.PaddingSize = 0\n\t}\n", "\t}\n", ["C02"]),
    ("c03-padding-break", "packet.go", "\t\t\t\tif buf[n] == 0x00 { // padding\n\t\t\t\t\tn++\n\n\t\t\t\t\tcontinue\n\t\t\t\t}",
     "\t\t\t\tif buf[n] == 0x00 { // padding\n\t\t\t\t\tn = extensionEnd\n\n\t\t\t\t\tbreak\n\t\t\t\t}", ["C03"]),
    ("c03-onebyte-len-no-plus1-for-16", "packet.go", "payloadLen = int(buf[n]&^0xF0 + 1)", "payloadLen = int(buf[n]&^0xF0+1) & 0x0F", ["C03", "C01"]),
    ("c04-size-check-off-by-one", "packet.go", "\tif n+len(p.Payload)+int(p.PaddingSize) > len(buf) {", "\tif n+len(p.Payload)+int(p.PaddingSize) > len(buf)+1 {", ["C04"]),
    ("c04-drop-ext-padding-zeroing", "packet.go", "\t\tfor i := 0; i < roundedExtSize-extSize; i++ {\n\t\t\tbuf[n] = 0\n\t\t\tn++\n\t\t}", "\t\tn += roundedExtSize - extSize", ["C04"]),
    ("c05-onebyte-accept-id15", "packet.go", "\t\t\tif id < 1 || id > 14 {\n\t\t\t\treturn fmt.Errorf(\"%w actual(%d)\", errRFC8285OneByteHeaderIDRange, id)", "\t\t\tif id < 1 || id > 15 {\n\t\t\t\treturn fmt.Errorf(\"%w actual(%d)\", errRFC8285OneByteHeaderIDRange, id)", ["C05"]),
    ("c05-del-wrong-index", "packet.go", "\t\t\th.Extensions = append(h.Extensions[:i], h.Extensions[i+1:]...)", "\t\t\th.Extensions = append(h.Extensions[:i-i], h.Extensions[1:]...)", ["C05"]),
    ("c05-set-appends-instead-of-replacing", "packet.go", "\t\t\tif extension.id == id {\n\t\t\t\th.Extensions[i].payload = payload\n\n\t\t\t\treturn nil\n\t\t\t}", "\t\t\tif extension.id == id && i == 0 {\n\t\t\t\th.Extensions[i].payload = payload\n\n\t\t\t\treturn nil\n\t\t\t}", ["C05"]),
    ("c06-timestamp-before-headers", "packetizer.go", "\tpackets := make([]*Packet, len(payloads))\n", "\tpackets := make([]*Packet, len(payloads))\n\tif len(payloads) > 3 {\n\t\tp.Timestamp++\n\t}\n", ["C06"]),
    ("c06-marker-on-first", "packetizer.go", "Marker:         i == len(payloads)-1,", "Marker:         i == len(payloads)-1 || (i == 0 && len(payloads) == 5),", ["C06"]),
    ("c06-skip-noop-on-wrap", "packetizer.go", "\tp.Timestamp += skippedSamples\n", "\tif p.Timestamp+skippedSamples >= p.Timestamp {\n\t\tp.Timestamp += skippedSamples\n\t}\n", ["C06"]),
    ("c07-rollover-on-65535", "sequencer.go", "\tif s.sequenceNumber == 0 {\n\t\ts.rollOverCount++", "\tif s.sequenceNumber == 65535 {\n\t\ts.rollOverCount++", ["C07"]),
    ("c07-rollover-read-unlocked", "sequencer.go", "func (s *sequencer) RollOverCount() uint64 {\n\ts.mutex.Lock()\n\tdefer s.mutex.Unlock()\n", "func (s *sequencer) RollOverCount() uint64 {\n", ["C07"]),
    ("c07-increment-outside-lock", "sequencer.go", "func (s *sequencer) NextSequenceNumber() uint16 {\n\ts.mutex.Lock()\n\tdefer s.mutex.Unlock()\n\n\ts.sequenceNumber++\n",
     "func (s *sequencer) NextSequenceNumber() uint16 {\n\ts.sequenceNumber++\n\ts.mutex.Lock()\n\tdefer s.mutex.Unlock()\n\n", ["C07"]),
    ("c07-fixed-start-off-by-one", "sequencer.go", "\t\tsequenceNumber: s - 1, // -1 because the first sequence number prepends 1", "\t\tsequenceNumber: s - 1 + s/65535, // -1 because the first sequence number prepends 1", ["C07"]),
    ("c08-vp8-header-size", "codecs/vp8_packet.go", "\tmaxFragmentSize := int(mtu) - usingHeaderSize\n", "\tmaxFragmentSize := int(mtu) - usingHeaderSize\n\tif mtu == 7 {\n\t\tmaxFragmentSize++\n\t}\n", ["C08", "C11"]),
    ("c08-g711-alias-last", "codecs/g711_packet.go", "\to := make([]byte, len(payload))\n\tcopy(o, payload)\n\n\treturn append(out, o)", "\treturn append(out, payload)", ["C08", "C16"]),
    ("c09-vp8-drop-tid-reset", "codecs/vp8_packet.go", "\t} else {\n\t\tp.TID = 0\n\t\tp.Y = 0\n\t\tp.KEYIDX = 0\n\t}", "\t}", ["C09"]),
    ("c09-h264-stapa-guard", "codecs/h264_packet.go", "\t\t\tif len(payload) < currOffset+naluSize {", "\t\t\tif len(payload)+1 < currOffset+naluSize {", ["C09"]),
    ("c10-e-bit-on-middle", "codecs/h264_packet.go", "\t\t} else if naluRemaining-currentFragmentSize == 0 {", "\t\t} else if naluRemaining-currentFragmentSize <= 1 {", ["C10"]),
    ("c10-nri-dropped", "codecs/h264_packet.go", "\t\tout[0] |= naluRefIdc\n", "\t\tout[0] |= naluRefIdc & 0x40\n", ["C10"]),
    ("c10-splitter-4byte", "codecs/h264_packet.go", "\t\tendIs4Byte := nals[nextStart-1] == 0\n", "\t\tendIs4Byte := nals[nextStart-1] == 0 && nextStart > 20\n", ["C10"]),
    ("c11-pid-wrap", "codecs/vp8_packet.go", "\tp.pictureID &= 0x7FFF\n", "\tp.pictureID &= 0xFFFF\n", ["C11"]),
    ("c11-keyidx-mask", "codecs/vp8_packet.go", "\t\t\tp.KEYIDX = payload[payloadIndex] & 0x1F", "\t\t\tp.KEYIDX = payload[payloadIndex] & 0x0F", ["C11"]),
    ("c12-profile1-subsampling-not-consumed", "codecs/vp9/header.go", "\t\t\tc.SubsamplingX = readFlagUnsafe(buf, pos)\n\t\t\tc.SubsamplingY = readFlagUnsafe(buf, pos)\n\t\t\t*pos++\n", "\t\t\tc.SubsamplingX = readFlagUnsafe(buf, pos)\n\t\t\tc.SubsamplingY = readFlagUnsafe(buf, pos)\n", ["C12"]),
    ("c12-width-height-swapped", "codecs/vp9_packet.go", "\t\t\twidth := header.Width()\n", "\t\t\twidth := header.Height()\n", ["C12"]),
    ("c12-e-on-every-packet", "codecs/vp9_packet.go", "\t\tif payloadDataRemaining == currentFragmentSize {\n\t\t\tout[0] |= 0x04 // E=1\n\t\t}\n\n\t\tout[1] = byte(p.pictureID>>8) | 0x80\n\t\tout[2] = byte(p.pictureID)\n\n\t\tcopy(out[headerSize:]",
     "\t\tif payloadDataRemaining <= currentFragmentSize+1 {\n\t\t\tout[0] |= 0x04 // E=1\n\t\t}\n\n\t\tout[1] = byte(p.pictureID>>8) | 0x80\n\t\tout[2] = byte(p.pictureID)\n\n\t\tcopy(out[headerSize:]", ["C12"]),
    ("c12-pid-wrap", "codecs/vp9_packet.go", "\tif p.pictureID >= 0x8000 {\n\t\tp.pictureID = 0\n\t}", "\tif p.pictureID > 0x8000 {\n\t\tp.pictureID = 0\n\t}", ["C12"]),
    ("c12-reset-keeps-tl0picidx", "codecs/vp9_packet.go", "\t*p = VP9Packet{videoDepacketizer: p.videoDepacketizer}\n", "\t*p = VP9Packet{videoDepacketizer: p.videoDepacketizer, TL0PICIDX: p.TL0PICIDX}\n", ["C12"]),
    ("c12-ss-r-mask", "codecs/vp9_packet.go", "\t\tR := (packet[pos] >> 2) & 0x3\n", "\t\tR := (packet[pos] >> 2) & 0x1\n", ["C12"]),
    ("c13-f16-reintroduced", "codecs/av1_packet.go",
     ["\t\tif obuSize > len(payload)-offset {\n\t\t\tbreak\n\t\t}\n",
      "\t\t// Remember the layer of the packet this OBU goes into; this has to happen after\n\t\t// the reset above, which refers to the packet that was just closed.\n\t\tif obuHeader.ExtensionHeader != nil {\n\t\t\tcurrentPacketOBUHeader = obuHeader.ExtensionHeader\n\t\t}\n"],
     ["\t\tif obuHeader.ExtensionHeader != nil {\n\t\t\tcurrentPacketOBUHeader = obuHeader.ExtensionHeader\n\t\t}\n\n\t\tif obuSize > len(payload)-offset {\n\t\t\tbreak\n\t\t}\n", ""], ["C13"]),
    ("c13-leb128size-threshold", "codecs/av1_packet.go", "\tcase leb128 >= 16384: // 2^14", "\tcase leb128 >= 16385: // 2^14", ["C13"]),
    ("c13-size-flag-not-cleared", "codecs/av1_packet.go", "\t\tobuHeader.HasSizeField = false\n", "\t\tobuHeader.HasSizeField = obuHeader.Type == obu.OBUMetadata\n", ["C13"]),
    ("c13-y-not-set-on-first-fragment", "codecs/av1_packet.go", "\t\tif toWrite != 0 {\n\t\t\tpayloads[currentPayload-1][0] |= av1YMask", "\t\tif toWrite > 1 {\n\t\t\tpayloads[currentPayload-1][0] |= av1YMask", ["C13"]),
    ("c13-writeleb-boundary", "codecs/av1/obu/leb128.go", "\t\tif in == 0 {\n\t\t\treturn b[:i+1]\n\t\t}\n\t\tb[i] |= 0x80", "\t\tif in == 0 && i != 2 {\n\t\t\treturn b[:i+1]\n\t\t}\n\t\tb[i] |= 0x80", ["C13"]),
    ("c14-ap-min-to-max", "codecs/h265_packet.go", "\t\t\t\tif headerTID < tid {\n\t\t\t\t\ttid = headerTID\n\t\t\t\t}", "\t\t\t\tif headerTID < tid || tid == math.MaxUint8 {\n\t\t\t\t\ttid = headerTID\n\t\t\t\t} else if headerTID > tid {\n\t\t\t\t\ttid = headerTID\n\t\t\t\t}", ["C14"]),
    ("c14-phssize-mask", "codecs/h265_packet.go", "\tconst mask = (0b00000001 << 8) | 0b11110000\n\n\treturn uint8((p.paciHeaderFields & mask) >> 4)", "\tconst mask = (0b00000000 << 8) | 0b11110000\n\n\treturn uint8((p.paciHeaderFields & mask) >> 4)", ["C14"]),
    ("c14-fu-payload-size", "codecs/h265_packet.go", "\t\t\tmaxFUPayloadSize := int(mtu) - fuPacketHeaderSize\n", "\t\t\tmaxFUPayloadSize := int(mtu) - fuPacketHeaderSize\n\t\t\tif mtu == 9 {\n\t\t\t\tmaxFUPayloadSize++\n\t\t\t}\n", ["C14", "C08"]),
    ("c14-ap-dond-guard", "codecs/h265_packet.go", "\t\tif len(payload) < int(unit.nalUnitSize) {\n\t\t\tbreak\n\t\t}", "\t\tif len(payload)+1 < int(unit.nalUnitSize) {\n\t\t\tbreak\n\t\t}", ["C14", "C09"]),
    ("c15-av1-buffer-not-cleared", "codecs/av1_depacketizer.go", "\tif !obuZ && len(d.buffer) > 0 {\n\t\td.buffer = nil\n\t}\n", "", ["C15"]),
    ("c15-av1-orphan-continuation-kept", "codecs/av1_depacketizer.go", "\t\t\tif len(d.buffer) == 0 {\n\t\t\t\tif isLast {\n\t\t\t\t\tbreak\n\t\t\t\t}\n\t\t\t\toffset += lengthField\n\n\t\t\t\tcontinue\n\t\t\t}\n", "", ["C15", "C09"]),
    ("c16-g722-fragment-size", "codecs/g722_packet.go", "\tfor len(payload) > int(mtu) {", "\tfor len(payload) > int(mtu)+1 {", ["C16", "C08"]),
    ("c16-opus-alias", "codecs/opus_packet.go", "\tout := make([]byte, len(payload))\n\tcopy(out, payload)\n\n\treturn [][]byte{out}", "\treturn [][]byte{payload}", ["C16", "C08"]),
    ("c17-playoutdelay-max-mask", "playoutdelayextension.go", "\tp.MaxDelay = binary.BigEndian.Uint16(rawData[1:3]) & 0x0FFF", "\tp.MaxDelay = binary.BigEndian.Uint16(rawData[1:3]) & 0x07FF", ["C17"]),
    ("c17-audiolevel-overflow-truncates", "audiolevelextension.go", "\tif a.Level > 127 {\n\t\treturn nil, errAudioLevelOverflow\n\t}", "\tif a.Level > 128 {\n\t\treturn nil, errAudioLevelOverflow\n\t}", ["C17"]),
    ("c17-transportcc-short-guard", "transportccextension.go", "\tif len(rawData) < transportCCExtensionSize {", "\tif len(rawData) < transportCCExtensionSize-1 {", ["C17"]),
    ("c18-wrap-test-le", "abssendtimeextension.go", "\tif receiveNTP < ntp {", "\tif receiveNTP <= ntp {", ["C18"]),
    ("c18-mask-one-bit-short", "abssendtimeextension.go", "\tntp := receiveNTP&0xFFFFFFC000000000 | (t.Timestamp&0xFFFFFF)<<14", "\tntp := receiveNTP&0xFFFFFFC000000000 | (t.Timestamp&0x7FFFFF)<<14", ["C18"]),
    ("c18-offset-sign", "abscapturetimeextension.go", "\tif negative {\n\t\tduration = -duration\n\t}", "\tif negative && duration > time.Second {\n\t\tduration = -duration\n\t}", ["C18"]),
    ("c19-tl-shift", "vlaextension.go", "\t\t\t\tpayload[offset] |= byte(len(sl.TargetBitrates)-1) << (2 * (3 - temporalLayerIndex))", "\t\t\t\tpayload[offset] |= byte(len(sl.TargetBitrates)-1) << (2 * ((3 - temporalLayerIndex) % 3))", ["C19"]),
    ("c19-dup-check-dropped", "vlaextension.go", "\t\tif ctx.sls[sl.RTPStreamID][sl.SpatialID] != nil {\n\t\t\treturn fmt.Errorf(\"duplicate spatial layer: %w\", ErrVLADuplicateSpatialID)\n\t\t}\n", "", ["C19"]),
    ("c20-shallow-csrc", "packet.go", "\tif h.CSRC != nil {\n\t\tclone.CSRC = make([]uint32, len(h.CSRC))\n\t\tcopy(clone.CSRC, h.CSRC)\n\t}\n", "", ["C20"]),
    ("c20-forget-paddingsize", "packet.go", "\tclone.PaddingSize = p.PaddingSize\n", "", ["C20"]),
    ("c20-shallow-ext-payload", "packet.go", "\t\t\tif e.payload != nil {\n\t\t\t\text[i].payload = make([]byte, len(e.payload))\n\t\t\t\tcopy(ext[i].payload, e.payload)\n\t\t\t}\n", "", ["C20"]),
]


def sh(cmd, **kw):
    return subprocess.run(cmd, shell=True, stdout=subprocess.PIPE, stderr=subprocess.STDOUT, text=True, **kw)


def restore():
    sh("git -C %s checkout -- . && git -C %s status --short" % (REPO, REPO))


def fix_commits():
    out = sh("git -C %s log --format='%%h %%s' --reverse" % REPO).stdout.splitlines()
    res = []
    for l in out:
        h, subj = l.split(" ", 1)
        if subj.startswith("fix:"):
            res.append((h, subj))
    return res


def props_for_commit(h):
    kf = json.load(open(os.path.join(ROOT, "known_findings.json")))
    return sorted({f["property"] for f in kf["findings"] if f.get("commit") == h})


def run_checks(props):
    res = {}
    for p in props:
        r = sh("./check %s quick" % p, cwd=ROOT)
        res[p] = (r.returncode, "VIOLATION property=%s" % p in r.stdout, [l for l in r.stdout.splitlines() if l.startswith("  sub-check")][:1])
    return res


def unit_tests():
    r = sh("cd %s && go build ./... 2>&1 && go test -count=1 ./... 2>&1 | grep -E '^(FAIL|ok|---)' | head -5" % REPO)
    builds = "cannot" not in r.stdout and "undefined" not in r.stdout and "declared and not used" not in r.stdout
    return builds, ("FAIL" not in r.stdout)


def main():
    filt = sys.argv[1:]
    rows = []
    assert sh("git -C %s status --short" % REPO).stdout.strip() == "", "/repo is dirty"
    # the checks rewrite evidence/<id>.json on every run: what they write while /repo holds a mutant is not
    # evidence about /repo - keep the files of the last run on the real tree and put them back afterwards
    import shutil
    import tempfile
    evdir = os.path.join(ROOT, "evidence")
    keep = tempfile.mkdtemp(prefix="selftest-evidence-", dir=os.path.join(ROOT, ".work"))
    shutil.copytree(evdir, os.path.join(keep, "evidence"))
    try:
        muts = []
        for h, subj in fix_commits():
            muts.append(("revert-" + h, "revert", h, None, None, props_for_commit(h), subj))
        for name, f, old, new, props in HAND:
            muts.append((name, "hand", f, old, new, props, ""))
        for name, kind, a, old, new, props, note in muts:
            if filt and not any(x in name for x in filt):
                continue
            if kind == "revert":
                r = sh("git -C %s show %s | git -C %s apply -R" % (REPO, a, REPO))
                if r.returncode != 0:
                    rows.append((name, "could not revert cleanly (later commit touches the same lines)", "", "", note))
                    restore()
                    continue
            else:
                path = os.path.join(REPO, a)
                s = open(path).read()
                pairs = list(zip(old, new)) if isinstance(old, list) else [(old, new)]
                bad = [o for o, _ in pairs if s.count(o) != 1]
                if bad:
                    rows.append((name, "ANCHOR NOT FOUND", "", "", note))
                    continue
                for o, nw in pairs:
                    s = s.replace(o, nw)
                open(path, "w").write(s)
            builds, suite_passes = unit_tests()
            if not builds:
                rows.append((name, "does not build", "", "", note))
                restore()
                continue
            t0 = time.time()
            res = run_checks(props)
            restore()
            killed = [p for p in props if res[p][0] == 1 and res[p][1]]
            missed = [p for p in props if p not in killed]
            detail = "; ".join("%s: %s" % (p, (res[p][2][0].strip()[:110] if res[p][2] else "exit %d" % res[p][0])) for p in props)
            rows.append((name, "KILLED by " + ",".join(killed) if killed else "SURVIVED", "missed: " + ",".join(missed) if missed else "",
                         "unit tests %s" % ("pass" if suite_passes else "FAIL"), (note + " " + detail).strip()))
            print(rows[-1][:4], "%.0fs" % (time.time() - t0), flush=True)
    finally:
        restore()
        shutil.rmtree(evdir, ignore_errors=True)
        shutil.copytree(os.path.join(keep, "evidence"), evdir)
        shutil.rmtree(keep, ignore_errors=True)
    out = os.path.join(ROOT, "selftest", "RESULTS.md" if not filt else "RESULTS.partial.md")
    with open(out, "w") as f:
        f.write("# Mutant sensitivity results (selftest/run.py, quick tier, VERIF_SEED default)\n\n")
        f.write("| mutant | verdict | not caught by | existing unit tests | detail |\n|---|---|---|---|---|\n")
        for r in rows:
            f.write("| %s | %s | %s | %s | %s |\n" % tuple(str(x).replace("|", "/").replace("\n", " ") for x in r))
    survived = [r for r in rows if r[1].startswith("SURVIVED") or r[2]]
    print("mutants: %d, fully killed: %d, with misses: %d" % (len(rows), len(rows) - len(survived), len(survived)))
    for r in survived:
        print("  MISS", r[0], r[1], r[2])


if __name__ == "__main__":
    main()
