// Package ev is the evidence collector of the verification harness. Every check
// reports the cases it actually executed here; nothing in the evidence file is a
// constant. One Collector per (property, process); the driver merges shards.
package ev

import (
	"encoding/binary"
	"encoding/json"
	"hash/fnv"
	"os"
	"sort"
	"sync"
	"time"
)

// MaxHashes caps the distinct-case set per process (memory); above the cap the
// count is a lower bound and Capped is reported.
const MaxHashes = 3_000_000

// Collector accumulates what one run covered.
type Collector struct {
	mu sync.Mutex

	Property string
	Tier     string
	Seed     int64
	Shard    int
	Shards   int
	Level    string
	Rule     string

	start        time.Time
	evaluations  int64
	nontrivial   int64
	hashes       map[uint64]struct{}
	capped       bool
	bulkDistinct int64
	classes      map[string]int64
	samples      []any
	sampleAt     int64
	knownHits    map[string]int64
	knownWhat    map[string]string
	exhaustive   []string
	partial      []string
	requested    map[string]int64
	executed     map[string]int64
	violations   []Violation
	notes        []string
	assumptions  []string
}

// Violation is one failure that is not covered by a known finding.
type Violation struct {
	Sub    string `json:"sub"`
	Replay string `json:"replay"`
	Msg    string `json:"msg"`
}

// New creates a collector.
func New(property, tier string, seed int64, shard, shards int, level string) *Collector {
	return &Collector{
		Property: property, Tier: tier, Seed: seed, Shard: shard, Shards: shards, Level: level,
		start:     time.Now(),
		hashes:    map[uint64]struct{}{},
		classes:   map[string]int64{},
		knownHits: map[string]int64{},
		knownWhat: map[string]string{},
		requested: map[string]int64{},
		executed:  map[string]int64{},
		sampleAt:  1,
	}
}

// Hash is FNV-64a of the canonical case bytes.
func Hash(b []byte) uint64 {
	h := fnv.New64a()
	_, _ = h.Write(b)

	return h.Sum64()
}

// Case records one executed case. canon is the canonical encoding of the case
// (only hashed when the case is non-trivial). sample is called lazily when the
// collector wants to keep this case as a literal sample.
func (c *Collector) Case(sub string, nontrivial bool, canon func() []byte, sample func() any, classes ...string) {
	c.mu.Lock()
	defer c.mu.Unlock()
	c.evaluations++
	c.executed[sub]++
	for _, k := range classes {
		c.classes[k]++
	}
	if !nontrivial {
		return
	}
	c.nontrivial++
	if canon != nil {
		if len(c.hashes) < MaxHashes {
			h := Hash(canon())
			c.hashes[h] = struct{}{}
		} else {
			c.capped = true
		}
	}
	// keep samples at non-trivial case numbers 1,2,3,10,100,1000,... (diverse, bounded)
	if sample != nil && (c.nontrivial <= 3 || c.nontrivial == c.sampleAt) && len(c.samples) < 12 {
		if c.nontrivial == c.sampleAt {
			c.sampleAt *= 10
		}
		c.samples = append(c.samples, map[string]any{"sub": sub, "case": sample()})
	}
	for c.sampleAt < c.nontrivial {
		c.sampleAt *= 10
	}
}

// Bulk records n executed cases of an enumeration at once (used by exhaustive
// loops where per-case bookkeeping would dominate). distinct is the number of
// distinct non-trivial cases among them, counted by the caller's loop.
func (c *Collector) Bulk(sub string, n, distinctNontrivial int64, classes map[string]int64) {
	c.mu.Lock()
	defer c.mu.Unlock()
	c.evaluations += n
	c.executed[sub] += n
	c.nontrivial += distinctNontrivial
	for k, v := range classes {
		c.classes[k] += v
	}
	// enumerated cases are distinct by construction and enumerations are always
	// partitioned across shards (i % shards == shard), so the driver may add the
	// per-shard counts.
	c.bulkDistinct += distinctNontrivial
}

// AddSample adds a literal sample unconditionally (bounded).
func (c *Collector) AddSample(sub string, s any) {
	c.mu.Lock()
	defer c.mu.Unlock()
	if len(c.samples) < 16 {
		c.samples = append(c.samples, map[string]any{"sub": sub, "case": s})
	}
}

// Class bumps a class counter without counting a case.
func (c *Collector) Class(k string, n int64) {
	c.mu.Lock()
	defer c.mu.Unlock()
	c.classes[k] += n
}

// Requested notes how many cases a sub-check was asked to run.
func (c *Collector) Requested(sub string, n int64) {
	c.mu.Lock()
	defer c.mu.Unlock()
	c.requested[sub] += n
}

// Known records a hit on a listed known finding.
func (c *Collector) Known(key, what string) {
	c.mu.Lock()
	defer c.mu.Unlock()
	c.knownHits[key]++
	c.knownWhat[key] = what
}

// Exhaustive notes a completely enumerated sub-domain (complete == false when
// this process only covered its shard's slice).
func (c *Collector) Exhaustive(name string, complete bool) {
	c.mu.Lock()
	defer c.mu.Unlock()
	if complete {
		c.exhaustive = append(c.exhaustive, name)
	} else {
		c.partial = append(c.partial, name)
	}
}

// Violate records a violation.
func (c *Collector) Violate(v Violation) {
	c.mu.Lock()
	defer c.mu.Unlock()
	for _, o := range c.violations {
		if o.Sub == v.Sub && o.Replay == v.Replay {
			return
		}
	}
	c.violations = append(c.violations, v)
}

// Note adds a free-text note.
func (c *Collector) Note(s string) {
	c.mu.Lock()
	defer c.mu.Unlock()
	c.notes = append(c.notes, s)
}

// Assume adds an assumption line.
func (c *Collector) Assume(s string) {
	c.mu.Lock()
	defer c.mu.Unlock()
	for _, a := range c.assumptions {
		if a == s {
			return
		}
	}
	c.assumptions = append(c.assumptions, s)
}

// Violations returns the number of violations recorded so far.
func (c *Collector) Violations() int {
	c.mu.Lock()
	defer c.mu.Unlock()

	return len(c.violations)
}

// Shard is the per-process file the driver merges.
type Shard struct {
	Property     string            `json:"property_id"`
	Tier         string            `json:"tier"`
	Seed         int64             `json:"seed"`
	Shard        int               `json:"shard"`
	Shards       int               `json:"shards"`
	Level        string            `json:"level"`
	Rule         string            `json:"rule"`
	Evaluations  int64             `json:"evaluations"`
	Nontrivial   int64             `json:"nontrivial_evaluations"`
	Distinct     int64             `json:"distinct_nontrivial"`
	Capped       bool              `json:"distinct_capped"`
	BulkDistinct int64             `json:"bulk_distinct"`
	Classes      map[string]int64  `json:"classes"`
	Samples      []any             `json:"samples"`
	KnownHits    map[string]int64  `json:"known_hits"`
	KnownWhat    map[string]string `json:"known_what"`
	Exhaustive   []string          `json:"exhaustive_domains"`
	Partial      []string          `json:"exhaustive_slices"`
	Requested    map[string]int64  `json:"requested"`
	Executed     map[string]int64  `json:"executed"`
	Violations   []Violation       `json:"violations"`
	Notes        []string          `json:"notes"`
	Assumptions  []string          `json:"assumptions"`
	WallS        float64           `json:"wall_s"`
	HashFile     string            `json:"hash_file"`
}

// Write writes the shard JSON and the sorted hash file next to it.
func (c *Collector) Write(path string) error {
	c.mu.Lock()
	defer c.mu.Unlock()
	hs := make([]uint64, 0, len(c.hashes))
	for h := range c.hashes {
		hs = append(hs, h)
	}
	sort.Slice(hs, func(i, j int) bool { return hs[i] < hs[j] })
	hb := make([]byte, 8*len(hs))
	for i, h := range hs {
		binary.LittleEndian.PutUint64(hb[8*i:], h)
	}
	hashFile := path + ".hashes"
	if err := os.WriteFile(hashFile, hb, 0o644); err != nil {
		return err
	}
	s := Shard{
		Property: c.Property, Tier: c.Tier, Seed: c.Seed, Shard: c.Shard, Shards: c.Shards, Level: c.Level,
		Rule: c.Rule, Evaluations: c.evaluations, Nontrivial: c.nontrivial, Distinct: int64(len(hs)) + c.bulkDistinct, BulkDistinct: c.bulkDistinct,
		Capped: c.capped, Classes: c.classes, Samples: c.samples, KnownHits: c.knownHits, KnownWhat: c.knownWhat,
		Exhaustive: c.exhaustive, Partial: c.partial, Requested: c.requested, Executed: c.executed,
		Violations: c.violations, Notes: c.notes, Assumptions: c.assumptions,
		WallS: time.Since(c.start).Seconds(), HashFile: hashFile,
	}
	b, err := json.MarshalIndent(s, "", " ")
	if err != nil {
		return err
	}

	return os.WriteFile(path, b, 0o644)
}

// UnionCount counts distinct values across sorted little-endian uint64 files.
func UnionCount(files []string) (int64, error) {
	var all []uint64
	for _, f := range files {
		b, err := os.ReadFile(f)
		if err != nil {
			return 0, err
		}
		for i := 0; i+8 <= len(b); i += 8 {
			all = append(all, binary.LittleEndian.Uint64(b[i:]))
		}
	}
	sort.Slice(all, func(i, j int) bool { return all[i] < all[j] })
	var n int64
	for i := range all {
		if i == 0 || all[i] != all[i-1] {
			n++
		}
	}

	return n, nil
}
