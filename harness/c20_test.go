package harness

// C20 — Clone returns an equal, fully independent copy.

import (
	"errors"
	"fmt"
	"testing"

	"github.com/pion/rtp"
	"pgregory.net/rapid"
)

type CloneCase struct {
	Model      PacketModel `json:"model"`
	FromWire   bool        `json:"from_wire"`   // packet obtained from Unmarshal (slices alias one buffer)
	NilPayload bool        `json:"nil_payload"` // Payload nil instead of empty (only when the model payload is empty)
	Mut        string      `json:"mut"`         // payload | csrc | extval | setnew | setreplace | del | scalar | padsize
	Index      int         `json:"index"`
	Side       string      `json:"side"` // mutate "orig" or "clone"
	// EmptyByDel: before cloning, every extension is removed again with DelExtension, which
	// leaves an empty extension list with spare capacity (as does reusing a Packet for Unmarshal)
	EmptyByDel bool `json:"empty_by_del"`
	// PayloadOffset: value of the (deprecated, but exported) header field of that name before cloning
	PayloadOffset int `json:"payload_offset,omitempty"`
	// DupID (with FromWire): the wire image repeats an extension id with another value (nothing forbids it on the
	// wire; SetExtension cannot produce it): both elements must be cloned as they are
	DupID bool `json:"dup_id,omitempty"`
	// XCleared: before cloning, the exported Extension flag is cleared while the entries stay in place (a caller
	// suppresses the block for one send); the clone must carry the same entries
	XCleared bool `json:"x_cleared,omitempty"`
	// WithRaw (with FromWire): the deprecated exported Raw field holds the datagram the packet was decoded from (the old
	// convention: Payload is a sub-slice of Raw); whatever Clone does with it, the two sides must not share it
	WithRaw bool `json:"with_raw,omitempty"`
	// NilValues: extensions with an empty value are set once more with a nil value (SetExtension(id, nil))
	NilValues bool `json:"nil_values,omitempty"`
	// Both: after cloning, the mutation is applied to BOTH sides (with different values):
	// each side must then show its own change only
	Both bool `json:"both"`
}

var subC20 = register("C20", "clone", checkC20)

func fullObs(p *rtp.Packet) string {
	s := fmt.Sprintf("V%d P%v X%v M%v PT%d seq%d ts%d ssrc%d csrc%v prof%#x pad%d payload=%s payloadoffset=%d ids=%v",
		p.Version, p.Padding, p.Extension, p.Marker, p.PayloadType, p.SequenceNumber, p.Timestamp, p.SSRC,
		append([]uint32{}, p.CSRC...), p.ExtensionProfile, p.PaddingSize, hb(p.Payload), p.PayloadOffset, p.GetExtensionIDs())
	for _, id := range p.GetExtensionIDs() {
		s += fmt.Sprintf(" %d=%s", id, hb(p.GetExtension(id)))
	}
	b, err := p.Marshal()
	s += fmt.Sprintf(" marshal=%s err=%v", hb(b), err)
	s += entriesObs(&p.Header)

	return s
}

// entriesObs lists the extension entries a header holds whatever its Extension flag says (read through a copy of
// the header value with the flag set; nothing is modified).
func entriesObs(h *rtp.Header) string {
	v := *h
	v.Extension = true
	s := fmt.Sprintf(" entries=%d:", len(h.Extensions))
	for _, id := range v.GetExtensionIDs() {
		s += fmt.Sprintf(" %d=%s", id, hb(v.GetExtension(id)))
	}

	return s
}

func hdrObs(h *rtp.Header) string {
	s := fmt.Sprintf("V%d P%v X%v M%v PT%d seq%d ts%d ssrc%d csrc%v prof%#x payloadoffset=%d ids=%v",
		h.Version, h.Padding, h.Extension, h.Marker, h.PayloadType, h.SequenceNumber, h.Timestamp, h.SSRC,
		append([]uint32{}, h.CSRC...), h.ExtensionProfile, h.PayloadOffset, h.GetExtensionIDs())
	for _, id := range h.GetExtensionIDs() {
		s += fmt.Sprintf(" %d=%s", id, hb(h.GetExtension(id)))
	}
	b, err := h.Marshal()
	s += fmt.Sprintf(" marshal=%s err=%v", hb(b), err)
	s += entriesObs(h)

	return s
}

// mutate applies the case's mutation to p; reports whether anything was changed.
func (c *CloneCase) mutate(p *rtp.Packet) bool {
	switch c.Mut {
	case "payload":
		if len(p.Payload) == 0 {
			return false
		}
		p.Payload[c.Index%len(p.Payload)] ^= 0xFF
	case "csrc":
		if len(p.CSRC) == 0 {
			return false
		}
		p.CSRC[c.Index%len(p.CSRC)] ^= 0xFFFFFFFF
	case "extval":
		ids := p.GetExtensionIDs()
		if len(ids) == 0 {
			return false
		}
		v := p.GetExtension(ids[c.Index%len(ids)])
		if len(v) == 0 {
			return false
		}
		v[(c.Index/16)%len(v)] ^= 0xFF
	case "setnew":
		if !p.Extension {
			return false
		}
		id := uint8(0)
		switch {
		case p.ExtensionProfile == 0xBEDE:
			for cand := uint8(1); cand <= 14; cand++ {
				if p.GetExtension(cand) == nil {
					id = cand

					break
				}
			}
			if id == 0 {
				return false
			}
		case p.ExtensionProfile == 0x1000:
			for cand := uint8(255); cand >= 1; cand-- {
				if p.GetExtension(cand) == nil {
					id = cand

					break
				}
			}
		default:
			return false
		}

		return p.SetExtension(id, []byte{0xA5, 0x5A}) == nil
	case "setreplace":
		ids := p.GetExtensionIDs()
		if len(ids) == 0 {
			return false
		}
		id := ids[c.Index%len(ids)]
		old := p.GetExtension(id)
		nv := make([]byte, len(old))
		for i := range nv {
			nv[i] = old[i] ^ 0x3C
		}
		if len(nv) == 0 {
			return false
		}

		return p.SetExtension(id, nv) == nil
	case "setlonger":
		// replace a value by a LONGER one (an implementation that reuses the old storage would spill)
		ids := p.GetExtensionIDs()
		if len(ids) == 0 || isLegacyProfile(p.ExtensionProfile) {
			return false
		}
		id := ids[c.Index%len(ids)]
		old := p.GetExtension(id)
		maxLen := 255
		if p.ExtensionProfile == 0xBEDE {
			maxLen = 16
		}
		if len(old) >= maxLen {
			return false
		}
		nv := make([]byte, mini(maxLen, len(old)+1+c.Index%7))
		for i := range nv {
			nv[i] = byte(0xC3 ^ i)
		}

		return p.SetExtension(id, nv) == nil
	case "del":
		ids := p.GetExtensionIDs()
		if len(ids) == 0 || isLegacyProfile(p.ExtensionProfile) {
			return false
		}

		return p.DelExtension(ids[c.Index%len(ids)]) == nil
	case "scalar":
		switch c.Index % 6 {
		case 0:
			p.SequenceNumber++
		case 1:
			p.Timestamp++
		case 2:
			p.SSRC++
		case 3:
			p.Marker = !p.Marker
		case 4:
			p.PayloadType = (p.PayloadType + 1) & 0x7F
		case 5:
			p.Version = (p.Version + 1) & 3
		}
	case "padsize":
		if p.PaddingSize == 0 {
			return false
		}
		if p.PaddingSize == 255 {
			p.PaddingSize = 254
		} else {
			p.PaddingSize++
		}
	default:
		return false
	}

	return true
}

func checkC20(r *run, c *CloneCase) (CaseInfo, error) {
	var ci CaseInfo
	m := &c.Model
	ci.class("mut:" + c.Mut)
	ci.class("side:" + c.Side)
	var orig *rtp.Packet
	var wire []byte // the datagram a decoded original still points into
	if c.FromWire {
		ci.class("from-wire")
		p, err := m.packet()
		if errors.Is(err, errAppbitsNotLegacy) {
			ci.class("appbits-profile-not-legacy")

			return ci, nil
		}
		if err != nil {
			return ci, failf("model not constructible: %v", err)
		}
		b, err := p.Marshal()
		if err != nil {
			return ci, failf("Marshal: %v", err)
		}
		if c.DupID && (m.ExtKind == "onebyte" || m.ExtKind == "twobyte") && len(m.Exts) >= 2 && len(m.Exts) <= 40 && m.Profile != 0 {
			wc := WireCase{Model: *m}
			wc.Model.Exts = append([]ExtElem{}, m.Exts...)
			wc.Model.Exts[len(m.Exts)-1].ID = m.Exts[0].ID
			if img, _, _, e := wc.image(); e == nil {
				b = img
				ci.class("wire-image-repeats-an-id")
			}
		}
		orig = &rtp.Packet{}
		if err := orig.Unmarshal(b); err != nil {
			return ci, failf("Unmarshal: %v", err)
		}
		wire = b
		if c.WithRaw {
			orig.Raw = b
			ci.class("raw-field-set")
		}
	} else {
		p, err := m.packet()
		if errors.Is(err, errAppbitsNotLegacy) {
			ci.class("appbits-profile-not-legacy")

			return ci, nil
		}
		if err != nil {
			return ci, failf("model not constructible: %v", err)
		}
		orig = p
		if c.NilPayload && len(m.Payload) == 0 {
			orig.Payload = nil
			ci.class("nil-payload")
		}
	}
	if c.EmptyByDel && orig.Extension && !isLegacyProfile(orig.ExtensionProfile) {
		for _, id := range orig.GetExtensionIDs() {
			if err := orig.DelExtension(id); err != nil {
				return ci, failf("DelExtension(%d): %v", id, err)
			}
		}
		ci.class("extensions-emptied-by-del")
	}
	if c.NilValues && orig.Extension && !isLegacyProfile(orig.ExtensionProfile) {
		for _, id := range orig.GetExtensionIDs() {
			if len(orig.GetExtension(id)) == 0 && orig.SetExtension(id, nil) == nil {
				ci.class("nil-extension-value")
			}
		}
	}
	orig.PayloadOffset = c.PayloadOffset
	if c.XCleared && orig.Extension && len(orig.Extensions) > 0 {
		orig.Extension = false
		ci.class("entries-kept-with-x-cleared")
	}
	before := fullObs(orig)
	cl := orig.Clone()
	if cl == nil {
		return ci, failf("Clone returned nil")
	}
	if got := fullObs(cl); got != before {
		return ci, failf("clone differs from the original:\n orig:  %s\n clone: %s", before, got)
	}
	if fullObs(orig) != before {
		return ci, failf("Clone changed the original")
	}
	hbefore := hdrObs(&orig.Header)
	hc := orig.Header.Clone()
	if got := hdrObs(&hc); got != hbefore {
		return ci, failf("Header.Clone differs from the original:\n orig:  %s\n clone: %s", hbefore, got)
	}

	if c.Both {
		// set a different new extension on each side: each must end up with exactly its own
		ci.class("both-sides")
		if !orig.Extension || isLegacyProfile(orig.ExtensionProfile) {
			ci.class("mutation-not-applicable")

			return ci, nil
		}
		var free []uint8
		for cand := uint8(1); cand <= 14 && len(free) < 2; cand++ {
			if orig.GetExtension(cand) == nil {
				free = append(free, cand)
			}
		}
		if len(free) < 2 {
			ci.class("mutation-not-applicable")

			return ci, nil
		}
		a, b := orig, cl
		if c.Side == "clone" {
			a, b = cl, orig
		}
		if a.SetExtension(free[0], []byte{0x11}) != nil || b.SetExtension(free[1], []byte{0x22, 0x22}) != nil {
			ci.class("mutation-not-applicable")

			return ci, nil
		}
		ci.Nontrivial = true
		// growing the payload / CSRC list of each side through append must not reach the other
		// side either (spare capacity is mutable memory too)
		pa, pb := len(a.Payload), len(b.Payload)
		ca, cb := len(a.CSRC), len(b.CSRC)
		a.Payload = append(a.Payload, 0xA1, 0xA2)
		b.Payload = append(b.Payload, 0xB1, 0xB2)
		if ca < 15 {
			a.CSRC = append(a.CSRC, 0xAAAAAAAA)
			b.CSRC = append(b.CSRC, 0xBBBBBBBB)
		}
		if string(a.Payload[pa:]) != "\xa1\xa2" || string(b.Payload[pb:]) != "\xb1\xb2" {
			return ci, failf("bytes appended to the payload of one side show up on the other: %s / %s", hx(a.Payload[pa:]), hx(b.Payload[pb:]))
		}
		if ca < 15 && (a.CSRC[ca] != 0xAAAAAAAA || b.CSRC[cb] != 0xBBBBBBBB) {
			return ci, failf("a CSRC appended on one side shows up on the other: %#x / %#x", a.CSRC[ca], b.CSRC[cb])
		}
		for _, side := range []struct {
			p        *rtp.Packet
			own, not uint8
			val      []byte
		}{{a, free[0], free[1], []byte{0x11}}, {b, free[1], free[0], []byte{0x22, 0x22}}} {
			if got := side.p.GetExtension(side.own); string(got) != string(side.val) {
				return ci, failf("after SetExtension(%d) on one side and SetExtension(%d) on the other (clone taken before): GetExtension(%d)=%s, want %s; ids %v", free[0], free[1], side.own, hx(got), hx(side.val), side.p.GetExtensionIDs())
			}
			if got := side.p.GetExtension(side.not); got != nil {
				return ci, failf("an extension added to one side after cloning shows up on the other: GetExtension(%d)=%s, ids %v", side.not, hx(got), side.p.GetExtensionIDs())
			}
		}

		return ci, nil
	}
	// mutate one side, the other must not move - nor may any sibling: a second clone of the
	// original and a clone of the clone (copies must not meet in storage shared behind the scenes)
	sibling, grandchild := orig.Clone(), cl.Clone()
	target, other := orig, cl
	if c.Side == "clone" {
		target, other = cl, orig
	}
	rawBefore := hb(other.Raw)
	if !c.mutate(target) {
		ci.class("mutation-not-applicable")

		return ci, nil
	}
	ci.Nontrivial = true
	if got := fullObs(other); got != before {
		return ci, failf("mutation %q of the %s changed the other side:\n before: %s\n after:  %s", c.Mut, c.Side, before, got)
	}
	if c.WithRaw {
		// write through the mutated side's Raw as well (it is that side's memory), then look at the other side's
		for i := range target.Raw {
			target.Raw[i] ^= 0xFF
		}
		if got := hb(other.Raw); got != rawBefore {
			return ci, failf("mutation %q of the %s (and writing through its Raw field) changed what the other side's Raw field holds", c.Mut, c.Side)
		}
		for i := range target.Raw {
			target.Raw[i] ^= 0xFF
		}
		if c.Side == "clone" {
			if got := fullObs(other); got != before {
				return ci, failf("writing through the clone's Raw field changed the original:\n before: %s\n after:  %s", before, got)
			}
		}
	}
	if got := fullObs(sibling); got != before {
		return ci, failf("mutation %q of the %s changed a second clone of the original:\n before: %s\n after:  %s", c.Mut, c.Side, before, got)
	}
	if got := fullObs(grandchild); got != before {
		return ci, failf("mutation %q of the %s changed a clone of the clone:\n before: %s\n after:  %s", c.Mut, c.Side, before, got)
	}
	if got := fullObs(other.Clone()); got != before {
		return ci, failf("after mutation %q of the %s a new clone of the untouched side differs from it:\n untouched: %s\n new clone: %s", c.Mut, c.Side, before, got)
	}
	if fullObs(target) == before {
		return ci, failf("harness bug: mutation %q had no observable effect on its own side", c.Mut)
	}
	// Header.Clone independence (clone taken before the mutation from orig)
	if c.Side == "orig" {
		if got := hdrObs(&hc); got != hbefore {
			return ci, failf("mutation %q of the original changed an earlier Header.Clone:\n before: %s\n after:  %s", c.Mut, hbefore, got)
		}
	} else {
		// mutate a header clone through its own accessors and make sure orig is intact
		hp := rtp.Packet{Header: hc}
		hp.Payload = nil
		hp.PaddingSize = orig.PaddingSize
		sub := *c
		if sub.Mut == "payload" || sub.Mut == "padsize" {
			sub.Mut = "scalar"
		}
		horig := hdrObs(&other.Header)
		if sub.mutate(&hp) {
			if got := hdrObs(&other.Header); got != horig {
				return ci, failf("mutation %q of a Header.Clone changed the original header:\n before: %s\n after:  %s", sub.Mut, horig, got)
			}
		}
	}
	if wire != nil && c.Side == "orig" {
		// the datagram the original was decoded from is the original's memory (every value, also one
		// no accessor reaches, lives in it): overwrite all of it, no copy may move
		for i := range wire {
			wire[i] ^= 0xFF
		}
		ci.class("datagram-of-the-original-overwritten")
		for _, o := range []struct {
			name string
			p    *rtp.Packet
		}{{"the clone", cl}, {"a second clone", sibling}, {"a clone of the clone", grandchild}} {
			if got := fullObs(o.p); got != before {
				return ci, failf("overwriting the datagram the original was decoded from changed %s:\n before: %s\n after:  %s", o.name, before, got)
			}
		}
		if got := hdrObs(&hc); got != hbefore {
			return ci, failf("overwriting the datagram the original was decoded from changed an earlier Header.Clone:\n before: %s\n after:  %s", hbefore, got)
		}
	}

	return ci, nil
}

func genCloneCase(t *rapid.T) *CloneCase {
	c := &CloneCase{Model: *genPacketModel(t)}
	// keep most cases small: every observation renders and marshals the whole packet
	// (one case in 40 keeps whatever the packet generator drew: large payloads, many extensions)
	if rapid.IntRange(0, 39).Draw(t, "uncapped") != 0 {
		if len(c.Model.Payload) > 300 {
			c.Model.Payload = c.Model.Payload[:300]
		}
		if len(c.Model.Exts) > 40 {
			c.Model.Exts = c.Model.Exts[:40]
		}
		if c.Model.ExtKind == "legacy" && len(c.Model.Exts[0].Val) > 256 {
			c.Model.Exts[0].Val = c.Model.Exts[0].Val[:256]
		}
	}
	if rapid.IntRange(0, 24).Draw(t, "bigpayload") == 0 {
		// payloads beyond a typical MTU (a fixed-size fast path would stop here)
		c.Model.Payload = genBytesN(t, "bigpayloadbytes", rapid.SampledFrom([]int{1499, 1500, 1501, 1600, 2048, 4096, 9000, 65536}).Draw(t, "bigpayloadlen"))
	}
	c.FromWire = genBool(t, "fromwire")
	c.DupID = c.FromWire && rapid.IntRange(0, 3).Draw(t, "dupid") == 0
	c.XCleared = rapid.IntRange(0, 7).Draw(t, "xcleared") == 0
	c.NilValues = genBool(t, "nilvalues")
	c.WithRaw = c.FromWire && rapid.IntRange(0, 3).Draw(t, "withraw") == 0
	if genBool(t, "haspayloadoffset") {
		c.PayloadOffset = rapid.SampledFrom([]int{12, 20, 1, -1, 65536}).Draw(t, "payloadoffset")
	}
	c.NilPayload = genBool(t, "nilpayload")
	c.Mut = rapid.SampledFrom([]string{"payload", "csrc", "extval", "extval", "setnew", "setreplace", "setlonger", "del", "scalar", "padsize"}).Draw(t, "mut")
	c.Index = rapid.IntRange(0, 4095).Draw(t, "index")
	c.Side = rapid.SampledFrom([]string{"orig", "clone"}).Draw(t, "side")
	c.EmptyByDel = rapid.IntRange(0, 4).Draw(t, "emptybydel") == 0
	c.Both = rapid.IntRange(0, 4).Draw(t, "both") == 0
	// make the chosen mutation applicable most of the time
	m := &c.Model
	switch c.Mut {
	case "payload":
		if len(m.Payload) == 0 {
			m.Payload = genBytesN(t, "payload2", rapid.IntRange(1, 20).Draw(t, "plen2"))
		}
	case "csrc":
		if len(m.CSRC) == 0 {
			m.CSRC = []uint32{genU32(t, "csrc2")}
		}
	case "padsize":
		if m.PaddingSize == 0 {
			m.PaddingSize = uint8(rapid.IntRange(1, 255).Draw(t, "pad2"))
		}
	}

	return c
}

const ruleC20 = "C01's well-formed packets (built through the API, or obtained from Unmarshal so that all slices alias one wire buffer (a quarter of those from an image that repeats an extension id); nil and empty payload/CSRC/extension values; the deprecated PayloadOffset header field set or not; one case in eight with the Extension flag cleared while the entries stay; decoded packets sometimes with the deprecated Raw field pointing at their datagram) x one mutation {flip payload byte, change CSRC entry, flip a byte of an extension value through the slice GetExtension returns, SetExtension new/replace, DelExtension, scalar field, padding size} applied to the original or to the clone, or a different new extension set on BOTH sides; optionally the extension list is first emptied again with DelExtension (length 0, spare capacity); oracle: clone observably equal (all fields, ids, values, Marshal bytes), untouched side unchanged after the mutation, as are a second clone of the original and a clone of the clone taken before it, and a clone of the untouched side taken after it; same for Header.Clone; finally the whole datagram a decoded original points into is overwritten: no copy moves. Non-trivial = the mutation was applicable; distinct = FNV-64 of the JSON case"

func TestC20(t *testing.T) {
	r := begin(t, "C20", "exploration", ruleC20)
	defer r.finish()
	subC20.rapidRun(r, n(30000, 300000), genCloneCase)
}
