module verifharness

go 1.23

toolchain go1.23.5

require (
	github.com/pion/rtp v0.0.0
	pgregory.net/rapid v1.3.0
)

require github.com/pion/randutil v0.1.0 // indirect

replace github.com/pion/rtp => /repo
