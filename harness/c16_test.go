package harness

// C16 — Audio payloaders split losslessly; Opus is passed through.

import (
	"bytes"
	"fmt"
	"testing"

	"github.com/pion/rtp"
	"github.com/pion/rtp/codecs"
	"pgregory.net/rapid"
)

type AudioCase struct {
	Codec   string `json:"codec"` // g711 | g722 | opus | opuspacket
	Len     int    `json:"len"`
	MTU     uint16 `json:"mtu"`
	Seed    uint64 `json:"seed"`
	Pattern int    `json:"pattern"`
	Nil     bool   `json:"nil"`    // opuspacket only: nil instead of empty
	Marker  bool   `json:"marker"` // argument of IsPartitionTail
	// More: lengths of further inputs passed to the SAME payloader value afterwards; the fragments of
	// every earlier call must still hold that call's input at the end
	More []int `json:"more,omitempty"`
	// Spare: the input is the first Len bytes of a buffer with this much spare capacity (must stay untouched)
	Spare int `json:"spare,omitempty"`
}

var subC16 = register("C16", "audio", checkC16)

func checkC16(r *run, c *AudioCase) (CaseInfo, error) {
	var ci CaseInfo
	ci.class("codec:" + c.Codec)
	in := expand(c.Seed, c.Pattern, c.Len)
	orig := clone(in)
	var guard []byte
	if c.Spare > 0 {
		backing := make([]byte, c.Len+c.Spare)
		copy(backing, in)
		for i := c.Len; i < len(backing); i++ {
			backing[i] = 0xA5 ^ byte(i)
		}
		in = backing[:c.Len]
		guard = clone(backing[c.Len:])
		ci.class("input-with-spare-capacity")
	}
	spareIntact := func() bool { return c.Spare == 0 || bytes.Equal(in[:c.Len+c.Spare][c.Len:], guard) }
	switch c.Codec {
	case "g711", "g722":
		var pl rtp.Payloader = &codecs.G711Payloader{}
		if c.Codec == "g722" {
			pl = &codecs.G722Payloader{}
		}
		frags := pl.Payload(c.MTU, in)
		if !bytes.Equal(in, orig) {
			return ci, failf("payloader modified its input")
		}
		if len(frags) == 0 {
			return ci, failf("%s.Payload(mtu %d, %d bytes) returned no fragment", c.Codec, c.MTU, c.Len)
		}
		var cat []byte
		for i, f := range frags {
			cat = append(cat, f...)
			if i < len(frags)-1 && len(f) != int(c.MTU) {
				return ci, failf("%s.Payload(mtu %d, %d bytes): fragment %d of %d is %d bytes, want exactly the MTU", c.Codec, c.MTU, c.Len, i, len(frags), len(f))
			}
			if len(f) > int(c.MTU) {
				return ci, failf("%s.Payload(mtu %d, %d bytes): fragment %d is %d bytes", c.Codec, c.MTU, c.Len, i, len(f))
			}
			if len(f) == 0 && c.Len > 0 {
				return ci, failf("%s.Payload(mtu %d, %d bytes): fragment %d is empty", c.Codec, c.MTU, c.Len, i)
			}
		}
		if !bytes.Equal(cat, orig) {
			return ci, failf("%s.Payload(mtu %d, %d bytes): fragments concatenate to %d bytes that differ from the input", c.Codec, c.MTU, c.Len, len(cat))
		}
		want := (c.Len + int(c.MTU) - 1) / int(c.MTU)
		if c.Len == 0 {
			want = 1
		}
		if len(frags) != want {
			return ci, failf("%s.Payload(mtu %d, %d bytes): %d fragments, want %d", c.Codec, c.MTU, c.Len, len(frags), want)
		}
		if !spareIntact() {
			return ci, failf("%s.Payload(mtu %d, %d bytes) wrote into the spare capacity behind its input", c.Codec, c.MTU, c.Len)
		}
		// every fragment is the caller's, capacity included: appending to one must not reach another
		for _, f := range frags {
			for i, full := len(f), f[:cap(f)]; i < len(full); i++ {
				full[i] ^= 0xFF
			}
		}
		cat = cat[:0]
		for _, f := range frags {
			cat = append(cat, f...)
		}
		if !bytes.Equal(cat, orig) {
			return ci, failf("%s.Payload(mtu %d, %d bytes): writing into the spare capacity of the returned fragments (what append does) changed other fragments", c.Codec, c.MTU, c.Len)
		}
		for k, l := range c.More {
			in2 := expand(c.Seed+uint64(k)+1, c.Pattern, l)
			orig2 := clone(in2)
			frags2 := pl.Payload(c.MTU, in2)
			var cat2 []byte
			for _, f := range frags2 {
				cat2 = append(cat2, f...)
			}
			if !bytes.Equal(cat2, orig2) {
				return ci, failf("%s payloader reused: call %d (mtu %d, %d bytes) returns fragments that do not concatenate to its input", c.Codec, k+2, c.MTU, l)
			}
			cat = cat[:0]
			for _, f := range frags {
				cat = append(cat, f...)
			}
			if !bytes.Equal(cat, orig) {
				return ci, failf("%s payloader reused: after call %d (mtu %d, %d bytes) the fragments returned by the first call (%d bytes) no longer hold its input", c.Codec, k+2, c.MTU, l, c.Len)
			}
			ci.class("payloader-reused")
		}
		if len(frags) >= 2 {
			ci.class("multi-fragment")
		}
		if c.Len > 0 && c.Len%int(c.MTU) == 0 {
			ci.class("len-multiple-of-mtu")
		}
		ci.Nontrivial = len(frags) >= 2 || c.Len == 0 || c.Len == int(c.MTU)
	case "opus":
		pl := &codecs.OpusPayloader{}
		frags := pl.Payload(c.MTU, in)
		if len(frags) != 1 || !bytes.Equal(frags[0], orig) {
			return ci, failf("OpusPayloader.Payload(mtu %d, %d bytes) returned %d fragments / different bytes", c.MTU, c.Len, len(frags))
		}
		for i := range in {
			in[i] ^= 0xFF
		}
		if !bytes.Equal(frags[0], orig) {
			return ci, failf("OpusPayloader fragment aliases the input (changed when the input was overwritten)")
		}
		copy(in, orig)
		for i := range frags[0] {
			frags[0][i] ^= 0xFF
		}
		if !bytes.Equal(in, orig) {
			return ci, failf("OpusPayloader fragment aliases the input (input changed when the fragment was overwritten)")
		}
		if !spareIntact() {
			return ci, failf("OpusPayloader.Payload(mtu %d, %d bytes) wrote into the spare capacity behind its input", c.MTU, c.Len)
		}
		for i := range frags[0] {
			frags[0][i] ^= 0xFF
		}
		for k, l := range c.More {
			in2 := expand(c.Seed+uint64(k)+1, c.Pattern, l)
			frags2 := pl.Payload(c.MTU, in2)
			if len(frags2) != 1 || !bytes.Equal(frags2[0], in2) {
				return ci, failf("OpusPayloader reused: call %d (%d bytes) returns %d fragments / different bytes", k+2, l, len(frags2))
			}
			if !bytes.Equal(frags[0], orig) {
				return ci, failf("OpusPayloader reused: after call %d the fragment returned by the first call no longer holds its input", k+2)
			}
			ci.class("payloader-reused")
		}
		ci.Nontrivial = c.Len > 0
		if c.Len > int(c.MTU) {
			ci.class("opus-larger-than-mtu")
		}
	case "opuspacket":
		var p codecs.OpusPacket
		var arg []byte
		switch {
		case c.Len > 0:
			arg = in
		case c.Nil:
			arg = nil
		default:
			arg = []byte{}
		}
		out, err := p.Unmarshal(arg)
		if c.Len == 0 {
			if err == nil {
				return ci, failf("OpusPacket.Unmarshal accepted a nil/empty payload (nil=%v)", c.Nil)
			}
			ci.class("opus-rejects-empty")
		} else {
			if err != nil {
				return ci, failf("OpusPacket.Unmarshal rejected a %d-byte payload: %v", c.Len, err)
			}
			if !bytes.Equal(out, orig) || !bytes.Equal(p.Payload, orig) {
				return ci, failf("OpusPacket.Unmarshal changed the payload")
			}
		}
		if !p.IsPartitionHead(arg) || !p.IsPartitionTail(c.Marker, arg) {
			return ci, failf("OpusPacket reports head=%v tail=%v (marker %v, %d bytes)", p.IsPartitionHead(arg), p.IsPartitionTail(c.Marker, arg), c.Marker, c.Len)
		}
		if !(&codecs.OpusPartitionHeadChecker{}).IsPartitionHead(arg) {
			return ci, failf("OpusPartitionHeadChecker reports false")
		}
		// an Opus packet carried inside another payload (a wrapper stripped by the caller): the same value decodes a
		// sub-slice of what it holds
		if c.Len >= 3 {
			inner := p.Payload[2:]
			want := clone(inner)
			got, err := p.Unmarshal(inner)
			if err != nil || !bytes.Equal(got, want) || !bytes.Equal(p.Payload, want) {
				return ci, failf("OpusPacket.Unmarshal of a sub-slice of its own Payload (offset 2 of %d bytes): returned %s, field %s, want %s (err %v)", c.Len, hx(got), hx(p.Payload), hx(want), err)
			}
			ci.class("decode-from-own-payload")
		}
		// the same OpusPacket decodes further payloads (shorter, equal, longer ones): each comes back unchanged
		for k, l := range c.More {
			in2 := expand(c.Seed+uint64(k)+1, c.Pattern, l)
			out2, err := p.Unmarshal(clone(in2))
			if l == 0 {
				if err == nil {
					return ci, failf("OpusPacket reused: call %d accepted an empty payload", k+2)
				}

				continue
			}
			if err != nil || !bytes.Equal(out2, in2) || !bytes.Equal(p.Payload, in2) {
				return ci, failf("OpusPacket reused: call %d with a %d-byte payload (after one of %d bytes) returned %d bytes / field %d bytes that differ from it (err %v)", k+2, l, c.Len, len(out2), len(p.Payload), err)
			}
			ci.class("receiver-reused")
		}
		ci.Nontrivial = true
	}

	return ci, nil
}

func genAudioCase(t *rapid.T) *AudioCase {
	c := &AudioCase{
		Codec:   rapid.SampledFrom([]string{"g711", "g722", "g711", "g722", "opus", "opuspacket"}).Draw(t, "codec"),
		Seed:    rapid.Uint64().Draw(t, "seed"),
		Pattern: rapid.SampledFrom([]int{0, 0, 1, 2, 3}).Draw(t, "pattern"),
		Nil:     genBool(t, "nil"),
		Marker:  genBool(t, "marker"),
	}
	c.MTU = uint16(biased(t, "mtu", 1, 65535, 1, 2, 3, 160, 1188, 1200, 1460))
	k := rapid.IntRange(0, 12).Draw(t, "k")
	c.Len = rapid.OneOf(
		rapid.IntRange(0, 10000),
		rapid.SampledFrom([]int{0, 1, int(c.MTU) - 1, int(c.MTU), int(c.MTU) + 1, k*int(c.MTU) - 1, k * int(c.MTU), k*int(c.MTU) + 1}),
	).Draw(t, "len")
	if c.Len < 0 {
		c.Len = 0
	}
	if c.Len > 10000 {
		c.Len = 10000
	}
	if rapid.IntRange(0, 2).Draw(t, "reuse") == 0 {
		for i, k := 0, rapid.IntRange(1, 3).Draw(t, "nmore"); i < k; i++ {
			// shorter, equal and longer later inputs (a payloader that keeps a buffer reuses it when it is large enough)
			c.More = append(c.More, rapid.OneOf(rapid.IntRange(0, c.Len+1), rapid.IntRange(0, 3000), rapid.Just(c.Len)).Draw(t, "morelen"))
		}
	}
	if rapid.IntRange(0, 3).Draw(t, "spare") == 0 {
		c.Spare = biased(t, "sparelen", 1, 4096, 1, int(c.MTU), 2*int(c.MTU))
		if c.Spare > 4096 {
			c.Spare = 4096
		}
	}
	if rapid.IntRange(0, 99).Draw(t, "jumbo") == 0 {
		// beyond the stated 0-10000: lengths that do not fit 16 bits, with an MTU that keeps the fragment count small
		c.Len = rapid.SampledFrom([]int{65534, 65535, 65536, 65537, 70000, 131072}).Draw(t, "jumbolen")
		if c.MTU < 500 {
			c.MTU = uint16(rapid.SampledFrom([]int{1200, 9000, 65535}).Draw(t, "jumbomtu"))
		}
	}

	return c
}

const ruleC16 = "exhaustive rectangle: every (length 0-64, MTU 1-70, fill pattern in {random,0x00,0xFF,ramp}) for G711 and G722, Opus and OpusPacket for every length 0-64; random: length 0-10000 biased to k*MTU+{-1,0,1}, MTU 1-65535 biased to 1,2,3,160,1200. Oracle: concatenation = input, every fragment but the last exactly MTU bytes, last 1..MTU, fragment count = ceil(len/MTU) (one empty fragment for empty input), fragments still intact after the spare capacity of each was overwritten; Opus: one equal non-aliasing fragment (scribble both ways); OpusPacket: payload unchanged (also for further payloads decoded by the same value), nil/empty rejected, head/tail always true. Non-trivial = >=2 fragments, empty input or len=MTU (G711/G722), non-empty Opus input, every OpusPacket case; distinct = FNV-64 of the JSON case"

func TestC16(t *testing.T) {
	r := begin(t, "C16", "exploration", ruleC16)
	defer r.finish()
	// exhaustive rectangle
	var total, nontriv int64
	classes := map[string]int64{}
	idx := 0
	failed := false
rect:
	for _, codec := range []string{"g711", "g722", "opus", "opuspacket"} {
		for l := 0; l <= 64; l++ {
			for mtu := 1; mtu <= 70; mtu++ {
				if (codec == "opus" || codec == "opuspacket") && mtu > 2 {
					continue
				}
				for pat := 0; pat <= 3; pat++ {
					idx++
					if !mine(idx) {
						continue
					}
					c := &AudioCase{Codec: codec, Len: l, MTU: uint16(mtu), Seed: uint64(l*131 + mtu), Pattern: pat, Nil: mtu == 1, Marker: pat&1 == 1}
					info, err := subC16.exec(r, c)
					total++
					if info.Nontrivial {
						nontriv++
					}
					for _, k := range info.Classes {
						classes["rect:"+k]++
					}
					if err != nil {
						subC16.one(r, c)
						failed = true

						break rect
					}
				}
			}
		}
	}
	if !failed {
		r.col.Bulk("rectangle", total, nontriv, classes)
		r.col.Exhaustive("C16 rectangle: all (len 0-64) x (MTU 1-70) x 4 fill patterns for G711/G722; all len 0-64 for Opus/OpusPacket", envShards == 1)
		r.col.AddSample("rectangle", map[string]any{"codec": "g711", "len": 64, "mtu": 7, "pattern": "ramp", "note": fmt.Sprintf("one of %d enumerated cases in this shard", total)})
	}
	subC16.rapidRun(r, n(15000, 1500000), genAudioCase)
}
