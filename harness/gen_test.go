package harness

// Generator helpers shared by the checks. Every random choice is a rapid draw;
// bulk byte content is a pure function (splitmix64 expansion) of a drawn seed.

import (
	"pgregory.net/rapid"
)

// splitmix64 expands a drawn seed into bytes deterministically.
type splitmix struct{ s uint64 }

func (m *splitmix) next() uint64 {
	m.s += 0x9E3779B97F4A7C15
	z := m.s
	z = (z ^ (z >> 30)) * 0xBF58476D1CE4E5B9
	z = (z ^ (z >> 27)) * 0x94D049BB133111EB

	return z ^ (z >> 31)
}

func expand(seed uint64, pattern int, n int) []byte {
	b := make([]byte, n)
	switch pattern {
	case 1:
		// all zero
	case 2:
		for i := range b {
			b[i] = 0xFF
		}
	case 3:
		for i := range b {
			b[i] = byte(seed) + byte(i)
		}
	default:
		m := splitmix{s: seed}
		for i := 0; i < n; i += 8 {
			v := m.next()
			for j := 0; j < 8 && i+j < n; j++ {
				b[i+j] = byte(v >> (8 * j))
			}
		}
	}

	return b
}

// genBytesN draws a byte slice of exactly n bytes. Short slices are drawn byte by
// byte (best shrinking, boundary bytes reachable); long ones from a seed+pattern.
func genBytesN(t *rapid.T, label string, n int) []byte {
	if n <= 12 {
		return rapid.SliceOfN(rapid.Byte(), n, n).Draw(t, label)
	}
	pattern := rapid.SampledFrom([]int{0, 0, 0, 0, 1, 2, 3}).Draw(t, label+".pat")
	seed := rapid.Uint64().Draw(t, label+".seed")

	return expand(seed, pattern, n)
}

// biased draws an int in [lo,hi] with extra weight on the given special values
// (those outside the range are dropped) and on lo/hi.
func biased(t *rapid.T, label string, lo, hi int, specials ...int) int {
	var sp []int
	for _, s := range append([]int{lo, hi}, specials...) {
		if s >= lo && s <= hi {
			sp = append(sp, s)
		}
	}
	switch rapid.IntRange(0, 9).Draw(t, label+".mode") {
	case 0, 1, 2:
		return rapid.SampledFrom(sp).Draw(t, label)
	case 3, 4:
		// small window at the low end
		return rapid.IntRange(lo, mini(hi, lo+8)).Draw(t, label)
	default:
		return rapid.IntRange(lo, hi).Draw(t, label)
	}
}

// around returns the values v-d..v+d for every v in centres.
func around(d int, centres ...int) []int {
	var out []int
	for _, c := range centres {
		for k := -d; k <= d; k++ {
			out = append(out, c+k)
		}
	}

	return out
}

func genU16(t *rapid.T, label string) uint16 {
	return uint16(biased(t, label, 0, 65535, 1, 0x7FFF, 0x8000, 65534))
}

func genU32(t *rapid.T, label string) uint32 {
	switch rapid.IntRange(0, 5).Draw(t, label+".mode") {
	case 0:
		return rapid.SampledFrom([]uint32{0, 1, 0x7FFFFFFF, 0x80000000, 0xFFFFFFFE, 0xFFFFFFFF}).Draw(t, label)
	default:
		return rapid.Uint32().Draw(t, label)
	}
}

func genBool(t *rapid.T, label string) bool { return rapid.Bool().Draw(t, label) }

// distinctIDs draws k distinct ids in [lo,hi] in random order.
func distinctIDs(t *rapid.T, label string, k, lo, hi int) []uint8 {
	ids := rapid.SliceOfNDistinct(rapid.IntRange(lo, hi), k, k, rapid.ID[int]).Draw(t, label)
	out := make([]uint8, len(ids))
	for i, v := range ids {
		out[i] = uint8(v)
	}

	return out
}
