package harness

// C02 — RTP parsing is memory-safe and bounded on arbitrary input; reuse-safe.

import (
	"bytes"
	"encoding/binary"
	"fmt"
	"testing"

	"github.com/pion/rtp"
	"pgregory.net/rapid"
)

// ParseCase: decode B; when A is non-nil decode A first into the same receiver.
type ParseCase struct {
	A    HexBytes `json:"a"` // earlier input (nil = none)
	B    HexBytes `json:"b"`
	HasA bool     `json:"has_a"`
	// Earlier: inputs decoded into the same receiver BEFORE A (a longer history: state left
	// behind by a rejected input may only show on the decode after the next one)
	Earlier []HexBytes `json:"earlier,omitempty"`
	// SameBuf: all inputs of the history are read into ONE receive buffer (the usual receive
	// loop: one buffer, one Packet), so slices kept from an earlier decode point into the
	// memory the next input is written to
	SameBuf bool `json:"same_buf,omitempty"`
	// Touch: accessor calls made on the receiver between the decode of A and the decode of B
	// (a forwarder edits the header it received); the decode of B must not depend on them
	Touch []TouchOp `json:"touch,omitempty"`
	// Inner: B is additionally decoded as an encapsulated packet: an outer packet carries InnerOff filler bytes and
	// B as its payload, the receiver decodes the outer packet and then, from its own Payload, the inner one
	Inner    bool `json:"inner,omitempty"`
	InnerOff int  `json:"inner_off,omitempty"`
}

type TouchOp struct {
	Kind string   `json:"kind"` // del (the K-th extension present, modulo the count) | set
	K    int      `json:"k,omitempty"`
	ID   uint8    `json:"id,omitempty"`
	Val  HexBytes `json:"val,omitempty"`
}

// applyTouch runs the accessor calls on h and returns the value buffers handed to SetExtension
// (they stay the caller's: a later decode must not write into them).
func applyTouch(h *rtp.Header, ops []TouchOp) (handed [][]byte) {
	for _, op := range ops {
		switch op.Kind {
		case "del":
			if ids := h.GetExtensionIDs(); len(ids) > 0 {
				_ = h.DelExtension(ids[op.K%len(ids)])
			}
		case "set":
			v := clone(op.Val)
			if v == nil {
				v = []byte{}
			}
			if h.SetExtension(op.ID, v) == nil {
				handed = append(handed, v, clone(v))
			}
		}
	}

	return handed
}

func handedIntact(handed [][]byte) bool {
	for i := 0; i+1 < len(handed); i += 2 {
		if !bytes.Equal(handed[i], handed[i+1]) {
			return false
		}
	}

	return true
}

var subC02 = register("C02", "parse", checkC02)

// certify verifies the library's claimed parse of input b against the bytes of b
// by an independent walk. It never predicts acceptance.
func certify(b []byte, p *rtp.Packet, hn int) error {
	n := len(b) - len(p.Payload) - int(p.PaddingSize)
	if n < 12 || n > len(b) {
		return failf("header length %d (= len - payload - padding) outside [12,%d]", n, len(b))
	}
	if hn != n {
		return failf("Header.Unmarshal reports header length %d but Packet.Unmarshal's payload starts at %d", hn, n)
	}
	if !bytes.Equal(p.Payload, b[n:n+len(p.Payload)]) {
		return failf("payload is not input[%d:%d]", n, n+len(p.Payload))
	}
	if len(p.Payload) > 0 && &p.Payload[0] != &b[n] {
		// content equal but different memory would still satisfy the statement; only note.
		_ = n
	}
	if p.Padding != (b[0]&0x20 != 0) {
		return failf("Padding=%v but P bit is %v", p.Padding, b[0]&0x20 != 0)
	}
	if p.Padding {
		if int(p.PaddingSize) != int(b[len(b)-1]) {
			return failf("PaddingSize=%d but last octet is %d", p.PaddingSize, b[len(b)-1])
		}
	} else if p.PaddingSize != 0 {
		return failf("PaddingSize=%d without P bit", p.PaddingSize)
	}
	if p.Version != b[0]>>6 || p.Extension != (b[0]&0x10 != 0) || p.Marker != (b[1]&0x80 != 0) || p.PayloadType != b[1]&0x7F ||
		p.SequenceNumber != binary.BigEndian.Uint16(b[2:]) || p.Timestamp != binary.BigEndian.Uint32(b[4:]) ||
		p.SSRC != binary.BigEndian.Uint32(b[8:]) {
		return failf("fixed header fields do not match the input bytes")
	}
	cc := int(b[0] & 0x0F)
	if len(p.CSRC) != cc {
		return failf("CSRC count %d, CC field %d", len(p.CSRC), cc)
	}
	for i := 0; i < cc; i++ {
		if p.CSRC[i] != binary.BigEndian.Uint32(b[12+4*i:]) {
			return failf("CSRC[%d] is not the input word", i)
		}
	}
	pos := 12 + 4*cc
	ids := p.GetExtensionIDs()
	if !p.Extension {
		if len(ids) != 0 {
			return failf("extension ids %v without X bit", ids)
		}
		if n != pos {
			return failf("header length %d, want %d (no extension)", n, pos)
		}

		return nil
	}
	if len(b) < pos+4 {
		return failf("accepted with X bit but no room for the extension header")
	}
	profile := binary.BigEndian.Uint16(b[pos:])
	words := int(binary.BigEndian.Uint16(b[pos+2:]))
	if p.ExtensionProfile != profile {
		return failf("ExtensionProfile %#x, input says %#x", p.ExtensionProfile, profile)
	}
	pos += 4
	blockEnd := pos + 4*words
	if blockEnd > len(b) {
		return failf("accepted although the declared extension block (%d words) overruns the input", words)
	}
	if profile != 0xBEDE && profile != 0x1000 {
		if len(ids) != 1 || ids[0] != 0 {
			return failf("legacy profile: ids %v, want [0]", ids)
		}
		if len(p.Extensions) != 1 {
			return failf("legacy profile: %d extensions", len(p.Extensions))
		}
		if v := p.GetExtension(0); !bytes.Equal(v, b[pos:blockEnd]) {
			return failf("legacy value is not input[%d:%d]", pos, blockEnd)
		}
		if n != blockEnd {
			return failf("header length %d, want %d (legacy block end)", n, blockEnd)
		}

		return nil
	}
	// one-/two-byte: walk the reported elements over the input. Values are read
	// through the Extensions list order (GetExtensionIDs) and, because ids may
	// repeat in arbitrary input, matched positionally by re-walking.
	i := pos
	seen := map[uint8]bool{}
	for k, id := range ids {
		for i < len(b) && b[i] == 0 {
			i++
		}
		var l int
		if profile == 0xBEDE {
			if i >= len(b) {
				return failf("element %d (id %d): walk ran off the input", k, id)
			}
			if b[i]>>4 != id {
				return failf("element %d: reported id %d but input[%d]=%#x", k, id, i, b[i])
			}
			l = int(b[i]&0x0F) + 1
			i++
		} else {
			if i+1 >= len(b) {
				return failf("element %d (id %d): walk ran off the input", k, id)
			}
			if b[i] != id {
				return failf("element %d: reported id %d but input[%d]=%#x", k, id, i, b[i])
			}
			l = int(b[i+1])
			i += 2
		}
		if i+l > len(b) {
			return failf("element %d (id %d, %d bytes) overruns the input", k, id, l)
		}
		if !seen[id] {
			// GetExtension returns the first element with this id
			if v := p.GetExtension(id); !bytes.Equal(v, b[i:i+l]) {
				return failf("element %d: GetExtension(%d)=%s but input[%d:%d]=%s", k, id, hx(v), i, i+l, hx(b[i:i+l]))
			}
			seen[id] = true
		}
		i += l
	}
	if i > n {
		return failf("extension elements end at %d, beyond the reported header length %d", i, n)
	}
	// whatever lies between the last element and the header end is zero padding, or
	// (one-byte) zero padding followed by an id-15 stop byte.
	for i < n && b[i] == 0 {
		i++
	}
	if i < n {
		if !(profile == 0xBEDE && b[i]>>4 == 15) {
			return failf("unreported non-padding byte %#x at %d inside the header (header length %d)", b[i], i, n)
		}
	} else if n < blockEnd {
		return failf("header length %d is inside the declared extension block (ends at %d) without an id-15 stop", n, blockEnd)
	}

	return nil
}

// decodeObs is everything observable of a decode, for the fresh-vs-reused relation.
func decodeObs(p *rtp.Packet, err error) string {
	if err != nil {
		return "error"
	}
	s := fmt.Sprintf("V%d P%v X%v M%v PT%d seq%d ts%d ssrc%d csrc%v prof%#x pad%d payload=%s ids=%v",
		p.Version, p.Padding, p.Extension, p.Marker, p.PayloadType, p.SequenceNumber, p.Timestamp, p.SSRC,
		append([]uint32{}, p.CSRC...), p.ExtensionProfile, p.PaddingSize, hb(p.Payload), p.GetExtensionIDs())
	for _, id := range p.GetExtensionIDs() {
		s += fmt.Sprintf(" %d=%s", id, hb(p.GetExtension(id)))
	}
	// every element positionally (duplicates included) through a re-marshal when possible
	s += fmt.Sprintf(" next=%d", len(p.Extensions))

	return s
}

func headerObs(h *rtp.Header, n int, err error) string {
	if err != nil {
		return "error"
	}
	s := fmt.Sprintf("n%d V%d P%v X%v M%v PT%d seq%d ts%d ssrc%d csrc%v prof%#x ids=%v", n,
		h.Version, h.Padding, h.Extension, h.Marker, h.PayloadType, h.SequenceNumber, h.Timestamp, h.SSRC,
		append([]uint32{}, h.CSRC...), h.ExtensionProfile, h.GetExtensionIDs())
	for _, id := range h.GetExtensionIDs() {
		s += fmt.Sprintf(" %d=%s", id, hb(h.GetExtension(id)))
	}

	return s
}

func checkC02(r *run, c *ParseCase) (CaseInfo, error) {
	var ci CaseInfo
	in := clone(c.B)
	if in == nil && c.B != nil {
		in = []byte{}
	}
	var fresh rtp.Packet
	err := fresh.Unmarshal(in)
	var fh rtp.Header
	hn, herr := fh.Unmarshal(in)
	if !bytes.Equal(in, c.B) {
		return ci, failf("Unmarshal modified its input")
	}
	if err == nil {
		ci.class("accepted")
		if herr != nil {
			return ci, failf("Packet.Unmarshal accepts but Header.Unmarshal rejects: %v", herr)
		}
		if cerr := certify(in, &fresh, hn); cerr != nil {
			return ci, failf("accepted input %s: %v", hx(in), cerr)
		}
		if fresh.Extension {
			ci.class("accepted-with-extension")
			ci.Nontrivial = true
		}
	} else {
		ci.class("rejected")
		ci.Nontrivial = true
		if herr == nil && (hn < 12 || hn > len(in)) {
			return ci, failf("Header.Unmarshal accepted %s with header length %d outside the input", hx(in), hn)
		}
	}
	if herr == nil && err != nil {
		ci.class("header-ok-packet-rejected")
	}
	if c.HasA {
		ci.class("reuse")
		var used rtp.Packet
		for _, e := range c.Earlier {
			_ = used.Unmarshal(clone(e))
		}
		if len(c.Earlier) > 0 {
			ci.class("reuse-chain>=3")
		}
		var shared []byte
		if c.SameBuf {
			ci.class("reuse-same-receive-buffer")
			shared = make([]byte, 1600+len(c.A)+len(c.B))
			for i := range shared {
				shared[i] = 0xDD
			}
			used = rtp.Packet{}
			for _, e := range c.Earlier {
				if len(e) <= len(shared) {
					_ = used.Unmarshal(shared[:copy(shared, e)])
				}
			}
		}
		a := clone(c.A)
		if c.SameBuf {
			a = shared[:copy(shared, c.A)]
		}
		_ = used.Unmarshal(a)
		handed := applyTouch(&used.Header, c.Touch)
		if len(c.Touch) > 0 {
			ci.class("reuse-after-accessor-calls")
		}
		if len(used.CSRC) > int(safeCC(in)) || len(used.Extensions) > len(fresh.Extensions) {
			ci.class("reuse-earlier-had-more")
			ci.Nontrivial = true
		}
		in2 := clone(c.B)
		if c.SameBuf {
			in2 = shared[:copy(shared, c.B)]
		}
		err2 := used.Unmarshal(in2)
		if !bytes.Equal(in2, c.B) {
			return ci, failf("Unmarshal of %s into a Packet that had decoded %s from the same receive buffer modified its input: %s", hx(c.B), hx(c.A), hx(in2))
		}
		if !handedIntact(handed) {
			return ci, failf("Unmarshal of %s into a Packet on which SetExtension had been called wrote into the value slice the caller passed to SetExtension", hx(c.B))
		}
		if got, want := decodeObs(&used, err2), decodeObs(&fresh, err); got != want {
			if err == nil && err2 == nil && !fresh.Extension && used.ExtensionProfile != fresh.ExtensionProfile {
				f2 := used
				f2.ExtensionProfile = fresh.ExtensionProfile
				if decodeObs(&f2, nil) == want {
					if e := r.finding("F02-stale-extension-profile", "decode %s after %s into the same Packet: ExtensionProfile stays %#x (fresh decode: %#x)",
						hx(c.B), hx(c.A), used.ExtensionProfile, fresh.ExtensionProfile); e != nil {
						return ci, e
					}

					goto hdr
				}
			}

			return ci, failf("decode %s after %s into the same Packet differs from a fresh decode:\n reused: %s\n fresh:  %s", hx(c.B), hx(c.A), got, want)
		}
	hdr:
		var uh rtp.Header
		for _, e := range c.Earlier {
			_, _ = uh.Unmarshal(clone(e))
		}
		_, _ = uh.Unmarshal(clone(c.A))
		hhanded := applyTouch(&uh, c.Touch)
		n2, e2 := uh.Unmarshal(clone(c.B))
		if !handedIntact(hhanded) {
			return ci, failf("Header.Unmarshal of %s into a Header on which SetExtension had been called wrote into the value slice the caller passed to SetExtension", hx(c.B))
		}
		if got, want := headerObs(&uh, n2, e2), headerObs(&fh, hn, herr); got != want {
			if herr == nil && e2 == nil && !fh.Extension && uh.ExtensionProfile != fh.ExtensionProfile {
				if e := r.finding("F02-stale-extension-profile", "decode %s after %s into the same Header: ExtensionProfile stays %#x", hx(c.B), hx(c.A), uh.ExtensionProfile); e != nil {
					return ci, e
				}

				return ci, nil
			}

			return ci, failf("Header decode of %s after %s differs from a fresh decode:\n reused: %s\n fresh:  %s", hx(c.B), hx(c.A), got, want)
		}
	}

	if c.Inner {
		ci.class("inner-packet-decoded-from-the-receivers-own-payload")
		outer := append(make([]byte, 12+c.InnerOff), c.B...)
		outer[0] = 0x80
		var up rtp.Packet
		if e := up.Unmarshal(outer); e != nil || len(up.Payload) != c.InnerOff+len(c.B) {
			return ci, failf("harness: outer packet (12-byte header, %d filler bytes, inner packet) decodes to a %d-byte payload, %v", c.InnerOff, len(up.Payload), e)
		}
		in3 := up.Payload[c.InnerOff:]
		err3 := up.Unmarshal(in3)
		if !bytes.Equal(in3, c.B) {
			return ci, failf("Unmarshal of the inner packet %s out of the receiver's own payload (offset %d) modified its input: %s", hx(c.B), c.InnerOff, hx(in3))
		}
		if got, want := decodeObs(&up, err3), decodeObs(&fresh, err); got != want {
			return ci, failf("decode of the inner packet %s out of the receiver's own payload (offset %d) differs from a fresh decode:\n reused: %s\n fresh:  %s", hx(c.B), c.InnerOff, got, want)
		}
	}

	return ci, nil
}

func safeCC(b []byte) uint8 {
	if len(b) == 0 {
		return 0
	}

	return b[0] & 0x0F
}

// genHostile draws one hostile byte string: random, or a mutant of a valid image.
func genHostile(t *rapid.T, label string) []byte {
	switch rapid.IntRange(0, 9).Draw(t, label+".kind") {
	case 0:
		return rapid.SliceOfN(rapid.Byte(), 0, 24).Draw(t, label+".rand")
	case 1:
		ln := rapid.IntRange(0, 100).Draw(t, label+".len")
		b := genBytesN(t, label+".bytes", ln)
		if ln > 0 && genBool(t, label+".fixv") {
			b[0] = rapid.SampledFrom([]uint8{0x80, 0x90, 0xA0, 0xB0, 0x81, 0x9F, 0xBF}).Draw(t, label+".b0")
		}

		return b
	case 2:
		// valid image, unmutated
		c := genWireCase(t, true)
		img, _, _, err := c.image()
		if err != nil {
			return []byte{}
		}

		return img
	default:
		c := genWireCase(t, true)
		img, w, _, err := c.image()
		if err != nil {
			return []byte{}
		}

		return applyMuts(img, genMuts(t, 3, w.HeaderLen))
	}
}

func genParseCase(t *rapid.T) *ParseCase {
	c := &ParseCase{B: genHostile(t, "b")}
	if rapid.IntRange(0, 2).Draw(t, "reuse") != 0 {
		c.HasA = true
		c.A = genHostile(t, "a")
		c.SameBuf = rapid.IntRange(0, 2).Draw(t, "samebuf") == 0
		if rapid.IntRange(0, 2).Draw(t, "chain") == 0 {
			k := rapid.IntRange(1, 2).Draw(t, "nearlier")
			for i := 0; i < k; i++ {
				c.Earlier = append(c.Earlier, genHostile(t, "earlier"))
			}
		}
		if rapid.IntRange(0, 5).Draw(t, "inner") == 0 {
			c.Inner, c.InnerOff = true, rapid.SampledFrom([]int{0, 1, 2, 4, 8, 12, 13}).Draw(t, "inneroff")
		}
		if rapid.IntRange(0, 3).Draw(t, "touch") == 0 {
			for i, k := 0, rapid.IntRange(1, 3).Draw(t, "ntouch"); i < k; i++ {
				if genBool(t, "touchdel") {
					c.Touch = append(c.Touch, TouchOp{Kind: "del", K: rapid.IntRange(0, 7).Draw(t, "touchk")})
				} else {
					c.Touch = append(c.Touch, TouchOp{Kind: "set", ID: uint8(biased(t, "touchid", 1, 255, 1, 2, 14, 15)), Val: genBytesN(t, "touchval", rapid.IntRange(1, 20).Draw(t, "touchlen"))})
				}
			}
		}
		// short rejected inputs are what leaves half-updated state behind: make them frequent
		if rapid.IntRange(0, 3).Draw(t, "shorta") == 0 && len(c.Touch) == 0 {
			c.A = rapid.SliceOfN(rapid.Byte(), 0, 16).Draw(t, "shortabytes")
			if len(c.A) > 0 {
				c.A[0] = rapid.SampledFrom([]uint8{0x80, 0x8F, 0x81, 0x90, 0xA0, 0x9F}).Draw(t, "shorta0")
			}
		}
	}

	return c
}

// enumC02 enumerates structured short packets over a boundary alphabet: fixed
// header with a chosen first byte, (optional CSRC word), profile, length field and
// every tail up to maxTail bytes. Each image is also decoded into the receiver
// that decoded the previous image (reuse pairs for free).
func enumC02(r *run, maxTail int) {
	first := []byte{0x80, 0x90, 0xB0, 0xA0, 0x91, 0xB1}
	profiles := [][]byte{{0xBE, 0xDE}, {0x10, 0x00}, {0x12, 0x34}, {0x10, 0x01}}
	alpha := []byte{0x00, 0x01, 0x02, 0x10, 0x11, 0x1F, 0xF0, 0xFF}
	var total, nontriv int64
	classes := map[string]int64{}
	var prev, prev2 []byte
	idx := 0
	for _, fb := range first {
		for _, prof := range profiles {
			for words := 0; words <= 3; words++ {
				base := make([]byte, 12)
				base[0] = fb
				base[1] = 0x60
				for i := 0; i < int(fb&0x0F); i++ {
					base = append(base, 0xCA, 0xFE, 0xBA, byte(i))
				}
				if fb&0x10 != 0 {
					base = append(base, prof...)
					base = append(base, 0, byte(words))
				} else if words > 0 || prof[0] != 0xBE {
					continue
				}
				for tl := 0; tl <= maxTail; tl++ {
					cnt := 1
					for i := 0; i < tl; i++ {
						cnt *= len(alpha)
					}
					for v := 0; v < cnt; v++ {
						idx++
						if !mine(idx) {
							continue
						}
						img := append([]byte{}, base...)
						x := v
						for i := 0; i < tl; i++ {
							img = append(img, alpha[x%len(alpha)])
							x /= len(alpha)
						}
						c := &ParseCase{B: img, A: prev, HasA: prev != nil}
						if prev2 != nil && v%3 == 0 {
							c.Earlier = []HexBytes{prev2}
						}
						info, err := subC02.exec(r, c)
						total++
						if info.Nontrivial {
							nontriv++
						}
						for _, k := range info.Classes {
							classes["enum:"+k]++
						}
						if err != nil {
							subC02.one(r, c)

							return
						}
						prev2, prev = prev, img
					}
				}
			}
		}
	}
	r.col.Bulk("enum", total, nontriv, classes)
	r.col.Exhaustive(fmt.Sprintf("C02 structured short packets: 6 first bytes x 4 profiles x 0-3 words x all tails <=%d bytes over an 8-symbol alphabet", maxTail), envShards == 1)
}

const ruleC02 = "inputs: random byte strings, valid RFC images (reference builder) and 1-3 byte-level mutations of them (truncate/flip/set/add/insert/delete, biased to the header), plus an exhaustive enumeration of structured short packets over a boundary alphabet; 2/3 of the cases decode one to three earlier hostile inputs (often short, rejected ones) into the same receiver first (a third of them through one shared receive buffer; a quarter with 1-3 DelExtension/SetExtension calls on the receiver before the last decode - the value slices handed to SetExtension must stay untouched; one reuse case in six also decodes the input as an inner packet out of the receiver's own payload). Oracle: no panic, input unmodified, certificate walk of every accepted parse against the input bytes, Header/Packet agreement, fresh-vs-reused equality. Non-trivial = rejected input, accepted input with an extension, or reuse where the earlier input had more CSRCs/extensions; distinct = FNV-64 of the (A,B) pair"

func TestC02(t *testing.T) {
	r := begin(t, "C02", "exploration", ruleC02)
	defer r.finish()
	subC02.rapidRun(r, n(40000, 600000), genParseCase)
	if thorough() {
		enumC02(r, 6)
	} else {
		enumC02(r, 4)
	}
}
