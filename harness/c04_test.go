package harness

// C04 — MarshalTo honours the destination buffer contract.

import (
	"bytes"
	"errors"
	"io"
	"testing"

	"github.com/pion/rtp"
	"pgregory.net/rapid"
)

type MarshalToCase struct {
	Model    PacketModel `json:"model"`
	DstLen   int         `json:"dst_len"`
	Fill     string      `json:"fill"` // "zero" | "ff" | "ee" | "random"
	FillSeed uint64      `json:"fill_seed"`
	SpareCap int         `json:"spare_cap"` // the destination is the first DstLen bytes of an arena this much larger (a re-sliced pooled buffer)
	// InPlace: additionally the forwarder pattern - Unmarshal(buf), change fixed header fields, MarshalTo(buf): the
	// destination previously contained the packet's own wire image, which the packet's slices still point into
	// XCleared: the exported Extension flag is cleared while the entries stay (a forwarder suppressing the block)
	XCleared bool   `json:"x_cleared,omitempty"`
	InPlace  bool   `json:"in_place,omitempty"`
	Tweak    uint32 `json:"tweak,omitempty"`
}

var subC04 = register("C04", "marshalto", checkC04)

func (c *MarshalToCase) arena() []byte {
	n := c.DstLen + c.SpareCap
	switch c.Fill {
	case "zero":
		return make([]byte, n)
	case "ff":
		return bytes.Repeat([]byte{0xFF}, n)
	case "ee":
		return bytes.Repeat([]byte{0xEE}, n)
	default:
		return expand(c.FillSeed, 0, n)
	}
}

// dst returns the destination (length DstLen, capacity DstLen+SpareCap) and the arena it lives in.
func (c *MarshalToCase) dst() ([]byte, []byte) {
	a := c.arena()

	return a[:c.DstLen], a
}

func checkC04(r *run, c *MarshalToCase) (CaseInfo, error) {
	var ci CaseInfo
	m := &c.Model
	p, err := m.packet()
	if errors.Is(err, errAppbitsNotLegacy) {
		ci.class("appbits-profile-not-legacy")

		return ci, nil
	}
	if err != nil {
		return ci, failf("model not constructible: %v", err)
	}
	if c.XCleared && p.Extension && len(p.Extensions) > 0 {
		p.Extension = false
		ci.class("entries-kept-with-x-cleared")
	}
	size := p.MarshalSize()
	want, err := p.Marshal()
	if err != nil {
		return ci, failf("Marshal failed on a well-formed packet: %v", err)
	}
	if len(want) != size {
		return ci, failf("Marshal() returns %d bytes, MarshalSize() is %d", len(want), size)
	}
	hsize := p.Header.MarshalSize()
	hwant, err := p.Header.Marshal()
	if err != nil {
		return ci, failf("Header.Marshal failed: %v", err)
	}
	dirty := c.Fill != "zero"
	extPad := m.ExtKind != "none" && m.ExtKind != "legacy" && (m.headerSize()-12-4*len(m.CSRC)-4) > extRawSize(m)
	switch {
	case c.DstLen < size:
		ci.class("short")
	case c.DstLen == size:
		ci.class("exact")
	default:
		ci.class("oversized")
	}
	if dirty {
		ci.class("dirty")
	}
	if extPad {
		ci.class("ext-needs-padding")
	}
	if m.PaddingSize >= 2 {
		ci.class("rtp-padding>=2")
	}
	ci.Nontrivial = (dirty && (extPad || m.PaddingSize >= 2)) || c.DstLen == size-1 || c.DstLen == size

	// Packet.MarshalTo
	dst, arena := c.dst()
	prior := clone(dst)
	priorArena := clone(arena)
	n, err := p.MarshalTo(dst)
	if !bytes.Equal(arena[len(dst):], priorArena[len(dst):]) {
		return ci, failf("Packet.MarshalTo (dst len %d, cap %d, need %d) wrote beyond len(dst) into the destination's spare capacity", len(dst), cap(dst), size)
	}
	if c.SpareCap > 0 {
		ci.class("spare-capacity")
	}
	if c.DstLen < size {
		if err == nil {
			return ci, failf("Packet.MarshalTo into %d bytes (need %d) succeeded with n=%d", c.DstLen, size, n)
		}
		if !errors.Is(err, io.ErrShortBuffer) {
			return ci, failf("Packet.MarshalTo into a short buffer: error %q is not a short-buffer error", err)
		}
		if n != 0 {
			return ci, failf("Packet.MarshalTo into a short buffer returned n=%d with an error", n)
		}
	} else {
		if err != nil {
			return ci, failf("Packet.MarshalTo into %d bytes (need %d) failed: %v", c.DstLen, size, err)
		}
		if n != size {
			return ci, failf("Packet.MarshalTo wrote n=%d, MarshalSize()=%d", n, size)
		}
		if !bytes.Equal(dst[:n], want) {
			if m.PaddingSize >= 2 && dirty && bytes.Equal(dst[:n-int(m.PaddingSize)], want[:n-int(m.PaddingSize)]) && dst[n-1] == want[n-1] {
				if e := r.finding("F04-rtp-pad-bytes-not-cleared", "MarshalTo into a %s-filled buffer leaves the %d RTP padding octets before the count uninitialised: %s, Marshal() gives %s",
					c.Fill, m.PaddingSize-1, hx(dst[n-int(m.PaddingSize):n]), hx(want[n-int(m.PaddingSize):])); e != nil {
					return ci, e
				}
			} else {
				return ci, failf("Packet.MarshalTo output differs from Marshal() (dst prefilled %s):\n got:  %s\n want: %s", c.Fill, hx(dst[:n]), hx(want))
			}
		}
		if !bytes.Equal(dst[n:], prior[n:]) {
			return ci, failf("Packet.MarshalTo modified bytes beyond the %d it reported", n)
		}
		// a second call on the same packet into another dirty buffer gives the same bytes
		dst2 := bytes.Repeat([]byte{0x5A}, len(dst))
		if n2, err := p.MarshalTo(dst2); err != nil || n2 != n || !bytes.Equal(dst2[:n2], want) || !bytes.Equal(dst2[n2:], bytes.Repeat([]byte{0x5A}, len(dst)-n2)) {
			return ci, failf("a second Packet.MarshalTo of the same packet differs (n=%d err=%v)", n2, err)
		}
	}

	// Header.MarshalTo with the same destination length
	hdst, harena := c.dst()
	hprior := clone(hdst)
	hpriorArena := clone(harena)
	hn, err := p.Header.MarshalTo(hdst)
	if !bytes.Equal(harena[len(hdst):], hpriorArena[len(hdst):]) {
		return ci, failf("Header.MarshalTo (dst len %d, cap %d, need %d) wrote beyond len(dst) into the destination's spare capacity", len(hdst), cap(hdst), hsize)
	}
	if c.DstLen < hsize {
		if err == nil || !errors.Is(err, io.ErrShortBuffer) || hn != 0 {
			return ci, failf("Header.MarshalTo into %d bytes (need %d): n=%d err=%v, want a short-buffer error", c.DstLen, hsize, hn, err)
		}
	} else {
		if err != nil || hn != hsize {
			return ci, failf("Header.MarshalTo into %d bytes (need %d): n=%d err=%v", c.DstLen, hsize, hn, err)
		}
		if !bytes.Equal(hdst[:hn], hwant) {
			return ci, failf("Header.MarshalTo output differs from Header.Marshal() (dst prefilled %s):\n got:  %s\n want: %s", c.Fill, hx(hdst[:hn]), hx(hwant))
		}
		if !bytes.Equal(hdst[hn:], hprior[hn:]) {
			return ci, failf("Header.MarshalTo modified bytes beyond the %d it reported", hn)
		}
	}
	if c.InPlace {
		if err := checkC04InPlace(c, want, &ci); err != nil {
			return ci, err
		}
	}

	return ci, nil
}

// checkC04InPlace: parse a wire image, change fixed header fields only (the layout stays the same), write the
// packet back over the image it was parsed from. The result must be what Marshal() returns for the changed packet.
func checkC04InPlace(c *MarshalToCase, wire []byte, ci *CaseInfo) error {
	size := len(wire)
	buf := make([]byte, size+c.SpareCap)
	copy(buf, wire)
	for i := size; i < len(buf); i++ {
		buf[i] = 0x77
	}
	var q rtp.Packet
	if err := q.Unmarshal(buf[:size]); err != nil {
		ci.class("in-place-skipped:own-output-rejected")

		return nil // C01's business
	}
	if again, err := q.Marshal(); err != nil || !bytes.Equal(again, wire) {
		ci.class("in-place-skipped:not-a-fixed-point")

		return nil // the parsed packet has another layout than the image (C01/C03's business): overlap hazards are the caller's
	}
	q.SequenceNumber += uint16(c.Tweak)
	q.Timestamp ^= c.Tweak
	q.SSRC += c.Tweak >> 3
	q.Marker = !q.Marker
	q.PayloadType = (q.PayloadType + uint8(c.Tweak>>8)) & 0x7F
	want, err := q.Marshal()
	if err != nil || len(want) != size {
		return failf("in place: Marshal after changing fixed header fields: %d bytes (was %d), %v", len(want), size, err)
	}
	// first with too little room (the forwarder's slice is a few bytes short): a short-buffer error, no panic
	hdrLen := size - len(q.Payload) - int(q.PaddingSize)
	for _, l := range []int{size - 1, size - 1 - int(c.Tweak%5), hdrLen + 1, hdrLen} {
		if l < 0 || l >= size {
			continue
		}
		if n, err := q.MarshalTo(buf[:l]); err == nil || !errors.Is(err, io.ErrShortBuffer) || n != 0 {
			return failf("in place: MarshalTo over the packet's own image with only %d of the %d bytes it needs: n=%d err=%v, want a short-buffer error", l, size, n, err)
		}
	}
	n, err := q.MarshalTo(buf[:size])
	if err != nil || n != size {
		return failf("in place: MarshalTo over the packet's own %d-byte wire image: n=%d err=%v", size, n, err)
	}
	if !bytes.Equal(buf[:size], want) {
		return failf("in place: Unmarshal(buf), change sequence number/timestamp/SSRC/marker/PT, MarshalTo(buf) gives\n  %s\nMarshal() of the same packet gave\n  %s", hb(buf[:size]), hb(want))
	}
	for i := size; i < len(buf); i++ {
		if buf[i] != 0x77 {
			return failf("in place: MarshalTo wrote beyond the %d bytes of the packet", size)
		}
	}
	if after, err := q.Marshal(); err != nil || !bytes.Equal(after, want) {
		return failf("in place: the packet itself changed through MarshalTo into the buffer it was parsed from: Marshal() now gives %s, before %s (%v)", hb(after), hb(want), err)
	}
	ci.class("in-place")
	if len(q.Payload) > 0 || len(q.GetExtensionIDs()) > 0 {
		ci.Nontrivial = true
	}
	// third kind of edit: the forwarder strips one header extension and writes the (shorter) packet back over
	// the image; every element and the payload move towards the front, never over bytes still to be read
	{
		buf2 := make([]byte, size+c.SpareCap)
		copy(buf2, wire)
		for i := size; i < len(buf2); i++ {
			buf2[i] = 0x77
		}
		var s rtp.Packet
		if err := s.Unmarshal(buf2[:size]); err == nil && s.Extension && !isLegacyProfile(s.ExtensionProfile) {
			if ids := s.GetExtensionIDs(); len(ids) >= 2 {
				del := ids[int(c.Tweak>>4)%len(ids)]
				if err := s.DelExtension(del); err != nil {
					return failf("in place: DelExtension(%d): %v", del, err)
				}
				want3, err := s.Marshal()
				if err != nil || len(want3) > size {
					return failf("in place: Marshal after DelExtension(%d): %d bytes (was %d), %v", del, len(want3), size, err)
				}
				n, err := s.MarshalTo(buf2[:size])
				if err != nil || n != len(want3) || !bytes.Equal(buf2[:n], want3) {
					return failf("in place: Unmarshal(buf), DelExtension(%d of %v), MarshalTo(buf) over the packet's own image gives n=%d err=%v\n  %s\nMarshal() of the same packet gave\n  %s", del, ids, n, err, hb(buf2[:mini(n, len(buf2))]), hb(want3))
				}
				for i := size; i < len(buf2); i++ {
					if buf2[i] != 0x77 {
						return failf("in place: MarshalTo after DelExtension wrote beyond the old image")
					}
				}
				ci.class("in-place-extension-stripped")
			}
		}
	}
	// fourth kind of edit: the forwarder re-keys the last header extension (the receiving side numbers its extensions
	// differently): same value slice - still pointing into the image - under a new id, written back in place
	{
		buf3 := make([]byte, size+c.SpareCap)
		copy(buf3, wire)
		var s rtp.Packet
		if err := s.Unmarshal(buf3[:size]); err == nil && s.Extension && !isLegacyProfile(s.ExtensionProfile) {
			if ids := s.GetExtensionIDs(); len(ids) >= 1 {
				last := ids[len(ids)-1]
				newID, free := uint8(0), false
				for cand := uint8(1); cand <= 14; cand++ {
					if s.GetExtension(cand) == nil && cand != last {
						newID, free = cand, true

						break
					}
				}
				dup := false
				for _, id := range ids[:len(ids)-1] {
					dup = dup || id == last
				}
				if v := s.GetExtension(last); free && !dup && len(v) > 0 {
					if s.DelExtension(last) == nil && s.SetExtension(newID, v) == nil {
						want4, err := s.Marshal()
						if err == nil && len(want4) == size {
							n, err := s.MarshalTo(buf3[:size])
							if err != nil || n != size || !bytes.Equal(buf3[:size], want4) {
								return failf("in place: Unmarshal(buf), move the last extension's value from id %d to id %d (same slice), MarshalTo(buf) gives n=%d err=%v\n  %s\nMarshal() of the same packet gave\n  %s", last, newID, n, err, hb(buf3[:size]), hb(want4))
							}
							ci.class("in-place-extension-rekeyed")
						}
					}
				}
			}
		}
	}
	// second stage: the forwarder pads the packet in place (probing); the padding trailer lands on
	// dirty bytes behind the image while header and payload already sit where they belong
	if k := 1 + int(c.Tweak%7); !q.Padding && c.SpareCap >= k {
		q.Padding, q.PaddingSize = true, uint8(k)
		want2, err := q.Marshal()
		if err != nil || len(want2) != size+k {
			return failf("in place: Marshal after adding %d padding octets: %d bytes, %v", k, len(want2), err)
		}
		n, err := q.MarshalTo(buf[:size+k])
		if err != nil || n != size+k || !bytes.Equal(buf[:size+k], want2) {
			return failf("in place: Unmarshal(buf), add %d padding octets, MarshalTo(buf[:%d]) over the packet's own image (dirty bytes behind it) gives n=%d err=%v\n  %s\nMarshal() of the same packet gave\n  %s", k, size+k, n, err, hb(buf[:size+k]), hb(want2))
		}
		for i := size + k; i < len(buf); i++ {
			if buf[i] != 0x77 {
				return failf("in place: MarshalTo wrote beyond the %d bytes of the padded packet", size+k)
			}
		}
		ci.class("in-place-padding-added")
	}

	return nil
}

func extRawSize(m *PacketModel) int {
	sz := 0
	for _, e := range m.Exts {
		sz += len(e.Val) + 1
		if m.ExtKind == "twobyte" {
			sz++
		}
	}

	return sz
}

func genMarshalToCase(t *rapid.T) *MarshalToCase {
	c := &MarshalToCase{Model: *genPacketModel(t)}
	m := &c.Model
	size := m.headerSize() + len(m.Payload) + int(m.PaddingSize)
	hs := m.headerSize()
	c.DstLen = rapid.OneOf(
		rapid.SampledFrom([]int{0, 1, 11, 12, hs - 1, hs, hs + 1, size - 1, size, size, size + 1, size + 7}),
		rapid.IntRange(0, size+16),
		rapid.SampledFrom([]int{size + 64, size + 255, size + 256, size + 1500, size + 4096, size + 65536}),
	).Draw(t, "dstlen")
	if c.DstLen < 0 {
		c.DstLen = 0
	}
	if genBool(t, "sparecap") {
		c.SpareCap = rapid.SampledFrom([]int{1, 2, 3, 4, 8, 16, 64, 300, 2000}).Draw(t, "sparecapval")
	}
	c.XCleared = rapid.IntRange(0, 9).Draw(t, "xcleared") == 0
	if rapid.IntRange(0, 2).Draw(t, "inplace") == 0 {
		c.InPlace, c.Tweak = true, genU32(t, "tweak")
	}
	c.Fill = rapid.SampledFrom([]string{"zero", "ff", "ee", "random", "random"}).Draw(t, "fill")
	if c.Fill == "random" {
		c.FillSeed = rapid.Uint64().Draw(t, "fillseed")
	}

	return c
}

const ruleC04 = "C01's well-formed packets (one in ten with the Extension flag cleared while the entries stay) x destination lengths {0,1,11,12,hdr-1,hdr,hdr+1,size-1,size,size+1,size+7} or uniform in [0,size+16] x prior contents {zero,0xFF,0xEE,random} x spare capacity behind the destination (0 or 1-2000 bytes: a re-sliced pooled buffer); oracle: short destination -> io.ErrShortBuffer with n=0, otherwise n=MarshalSize, bytes identical to Marshal(), bytes beyond n untouched; same for Header.MarshalTo; one case in three also runs the forwarder pattern Unmarshal(buf) / change sequence number, timestamp, SSRC, marker, PT / MarshalTo(buf) over the packet's own wire image (only when that image is a Marshal fixed point, so the layout is unchanged; first with a destination a few bytes short: short-buffer error): result = Marshal() of the changed packet, packet intact; then, when the image has no RTP padding and there is room behind it, 1-7 padding octets are added and the packet is written in place once more; and with two or more RFC 8285 elements one of them is deleted and the shorter packet written over the image; the last element is re-keyed (same value slice, new id) and written back. Non-trivial = dirty destination with extension padding or >=2 RTP padding octets, or destination length in {size-1,size}; distinct = FNV-64 of the JSON case"

func TestC04(t *testing.T) {
	r := begin(t, "C04", "exploration", ruleC04)
	defer r.finish()
	subC04.rapidRun(r, n(30000, 1200000), genMarshalToCase)
}
