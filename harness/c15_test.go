package harness

// C15 — Stateful depacketizers resynchronise at the next complete frame after loss.

import (
	"bytes"
	"fmt"
	"testing"

	"github.com/pion/rtp/codecs"
	"pgregory.net/rapid"

	"verifharness/ref/av1rtp"
	"verifharness/ref/h264rtp"
)

type LossFrame struct {
	MTU     uint16    `json:"mtu"`
	NALs    []NALSpec `json:"nals,omitempty"`
	OBUs    []OBUSpec `json:"obus,omitempty"`
	RefEnc  bool      `json:"ref_enc"`            // packetise with the independent encoder (h264rtp / av1rtp.Pack)
	AV1W    []int     `json:"av1_w,omitempty"`    // av1 + RefEnc: per packet (cyclically) 0 = W=0, every element length-prefixed; else W = element count
	AV1N    bool      `json:"av1_n,omitempty"`    // av1 + RefEnc: N bit on the first packet
	FUSize  int       `json:"fu_size,omitempty"`  // fragment size used by the independent encoder
	EmptyFU int       `json:"empty_fu,omitempty"` // independent encoder: 1 = empty START fragment, 2 = an empty middle fragment, 3 = both (RFC 6184 5.8 allows empty FUs); +8 = the start fragment of every train has the F bit set in its FU indicator; +4 = a unit that fits the MTU goes out as ONE FU-A carrying S and E together (a sender must not do that, but the packet begins with its own start marker and a fresh H264Packet decodes it)
}

// Garbage is an arbitrary input delivered before packet Pos of frame A (Pos >= the
// number of A's packets: after A, right before frame B). It is always delivered,
// whatever the loss subset.
type Garbage struct {
	Pos  int      `json:"pos"`
	Data HexBytes `json:"data"`
}

type LossCase struct {
	Codec string    `json:"codec"` // h264 | h264avc | av1
	A     LossFrame `json:"a"`
	B     LossFrame `json:"b"`
	// A2: an optional second lossy frame delivered (under the drawn mask A2Mask) between A and B
	A2      *LossFrame `json:"a2,omitempty"`
	A2Mask  uint32     `json:"a2_mask,omitempty"`
	Garbage []Garbage  `json:"garbage"`
	Seed    uint64     `json:"seed"` // selects the subsets when A has more than 10 packets
	// HugeOpen: after A (and A2) a further fragment train of this many bytes is delivered whose end never arrives
	// (a lost tail of a very large unit); only two subsets of A are then enumerated (none, all)
	HugeOpen int `json:"huge_open,omitempty"`
}

// hugeOpenTrain feeds d a start fragment and continuation fragments (60000 bytes each, the last one shorter)
// carrying exactly total bytes of unit data, never an end.
func hugeOpenTrain(d depack, codec string, total int) {
	chunk := make([]byte, 60002)
	for i := range chunk {
		chunk[i] = byte(i*7 + 1)
	}
	for sent := 0; sent < total; {
		n := mini(60000, total-sent)
		if codec == "av1" {
			chunk[0], chunk[1] = 0xD0, 0x11 // Z=1 Y=1 W=1
			if sent == 0 {
				chunk[0], chunk[1] = 0x50, 0x30 // Z=0 Y=1 W=1, OBU_FRAME header
			}
			_, _ = d.Unmarshal(chunk[:1+n]) // aggregation header + n bytes of the OBU
		} else {
			chunk[0], chunk[1] = 0x7C, 0x05 // FU-A, middle fragment of a type-5 unit
			if sent == 0 {
				chunk[1] = 0x85 // start
			}
			_, _ = d.Unmarshal(chunk[:2+n])
		}
		sent += n
	}
}

var subC15 = register("C15", "loss", checkC15)

func (f *LossFrame) packets(codec string) [][]byte {
	if codec == "av1" {
		if f.RefEnc {
			var obus [][]byte
			for i := range f.OBUs {
				o := &f.OBUs[i]
				obus = append(obus, append(o.hdr(false).Bytes(), expand(o.Seed, 0, o.Size)...))
			}

			return av1rtp.Pack(obus, f.FUSize, f.AV1W, f.AV1N)
		}
		c := AV1Case{MTU: f.MTU, OBUs: f.OBUs}

		return (&codecs.AV1Payloader{}).Payload(f.MTU, c.input())
	}
	if f.RefEnc {
		var out [][]byte
		for i := range f.NALs {
			n := f.NALs[i].nal()
			fs := f.FUSize
			if fs < 1 {
				fs = 1
			}
			if len(n) <= int(f.MTU) {
				if f.EmptyFU&4 != 0 && len(n) >= 2 {
					out = append(out, h264rtp.FUA(n, []int{len(n) - 1})...)
				} else {
					out = append(out, h264rtp.Single(n))
				}

				continue
			}
			var sizes []int
			for rest := len(n) - 1; rest > 0; rest -= fs {
				sizes = append(sizes, mini(fs, rest))
			}
			if len(sizes) < 2 {
				sizes = []int{len(n) - 2, 1}
			}
			if f.EmptyFU&2 != 0 {
				sizes = append(sizes[:1], append([]int{0}, sizes[1:]...)...)
			}
			if f.EmptyFU&1 != 0 {
				sizes = append([]int{0}, sizes...)
			}
			train := h264rtp.FUA(n, sizes)
			if f.EmptyFU&8 != 0 {
				train[0][0] |= 0x80 // forbidden_zero_bit set on the start fragment's FU indicator (flagged as damaged in transit)
			}
			if f.EmptyFU&16 != 0 {
				for k := range train {
					train[k][1] |= 0x20 // the reserved R bit of the FU header, which receivers must ignore
				}
			}
			out = append(out, train...)
		}

		return out
	}
	call := H264Call{Units: f.NALs}

	return (&codecs.H264Payloader{}).Payload(f.MTU, call.buffer())
}

type depack interface {
	Unmarshal([]byte) ([]byte, error)
}

type obsRec struct {
	out []byte
	err bool
	zyn string
}

func feed(d depack, p []byte) obsRec {
	out, err := d.Unmarshal(clone(p))
	o := obsRec{out: clone(out), err: err != nil}
	if a, ok := d.(*codecs.AV1Depacketizer); ok && err == nil {
		o.zyn = fmt.Sprintf("%v%v%v", a.Z, a.Y, a.N)
	}

	return o
}

func newDepack(codec string) depack {
	switch codec {
	case "av1":
		return &codecs.AV1Depacketizer{}
	case "h264avc":
		return &codecs.H264Packet{IsAVC: true}
	default:
		return &codecs.H264Packet{}
	}
}

// opensTrain reports whether delivering exactly the packets in mask leaves a
// fragment train open (a start delivered, its end lost) at the end of frame A.
func opensTrain(codec string, pkts [][]byte, mask uint32) bool {
	open := false
	for i, p := range pkts {
		if mask&(1<<uint(i)) == 0 {
			continue
		}
		if codec == "av1" {
			if pk, err := av1rtp.ParsePacket(p); err == nil {
				open = pk.Y
			}

			continue
		}
		if pl, err := h264rtp.Parse(p); err == nil && pl.Kind == "fua" {
			if pl.S {
				open = true
			}
			if pl.E {
				open = false
			}
		}
	}

	return open
}

func checkC15(r *run, c *LossCase) (CaseInfo, error) {
	var ci CaseInfo
	ci.class("codec:" + c.Codec)
	a := c.A.packets(c.Codec)
	b := c.B.packets(c.Codec)
	var a2 [][]byte
	if c.A2 != nil {
		a2 = c.A2.packets(c.Codec)
		ci.class("second-lossy-frame")
	}
	if len(a) == 0 || len(b) == 0 {
		ci.class("degenerate-frame")

		return ci, nil
	}
	// reference behaviour: a fresh receiver fed B only
	fresh := newDepack(c.Codec)
	want := make([]obsRec, len(b))
	for i, p := range b {
		want[i] = feed(fresh, p)
	}
	bFragmented := false
	for _, p := range b {
		if c.Codec == "av1" {
			if pk, err := av1rtp.ParsePacket(p); err == nil && pk.Y {
				bFragmented = true
			}
		} else if pl, err := h264rtp.Parse(p); err == nil && pl.Kind == "fua" {
			bFragmented = true
		}
	}
	nA := len(a)
	var masks []uint32
	if nA <= 10 {
		for m := uint32(0); m < 1<<uint(nA); m++ {
			masks = append(masks, m)
		}
		ci.class("all-subsets")
	} else {
		sm := splitmix{s: c.Seed}
		seen := map[uint32]bool{}
		for len(masks) < 1024 {
			m := uint32(sm.next()) & (1<<uint(nA) - 1)
			if !seen[m] {
				seen[m] = true
				masks = append(masks, m)
			}
		}
		ci.class("drawn-subsets")
	}
	if c.HugeOpen > 0 {
		masks = []uint32{0, 1<<uint(mini(nA, 31)) - 1}
		ci.class("huge-abandoned-train")
	}
	openSubsets := 0
	for _, m := range masks {
		d := newDepack(c.Codec)
		for i := 0; i <= len(a); i++ {
			for _, g := range c.Garbage {
				if g.Pos == i || (i == len(a) && g.Pos > len(a)) {
					feed(d, g.Data)
				}
			}
			if i < len(a) && m&(1<<uint(i)) != 0 {
				feed(d, a[i])
			}
		}
		for i, p := range a2 {
			if c.A2Mask&(1<<uint(i%32)) != 0 {
				feed(d, p)
			}
		}
		open := opensTrain(c.Codec, a, m)
		if c.HugeOpen > 0 {
			hugeOpenTrain(d, c.Codec, c.HugeOpen)
			open = true
		}
		if open {
			openSubsets++
		}
		for i, p := range b {
			got := feed(d, p)
			if got.err != want[i].err || !bytes.Equal(got.out, want[i].out) || got.zyn != want[i].zyn {
				msg := fmt.Sprintf("%s: after delivering subset %0*b of frame A's %d packets (%d garbage inputs interleaved; fragment left open: %v), packet %d/%d of the intact frame B decodes to %s (err %v, Z/Y/N %s); a fresh depacketizer gives %s (err %v, Z/Y/N %s)",
					c.Codec, nA, m, nA, len(c.Garbage), open, i, len(b), hx(got.out), got.err, got.zyn, hx(want[i].out), want[i].err, want[i].zyn)
				if c.Codec != "av1" && !got.err && !want[i].err && len(want[i].out) >= 5 && len(got.out) > len(want[i].out) && got.out[4] == want[i].out[4] && bytes.HasSuffix(got.out, want[i].out[5:]) {
					if e := r.finding("F21-h264-fua-buffer-not-reset-on-start", "%s", msg); e != nil {
						return ci, e
					}

					return ci, nil
				}

				return ci, failf("%s", msg)
			}
		}
	}
	r.col.Bulk("subsets", int64(len(masks)), 0, map[string]int64{"subsets-enumerated": int64(len(masks)), "subsets-leaving-a-fragment-open": int64(openSubsets)})
	ci.Nontrivial = openSubsets > 0 && bFragmented
	if len(c.Garbage) > 0 {
		ci.class("garbage-prefix")
	}

	return ci, nil
}

func genLossFrame(t *rapid.T, codec string, mustFragment bool, label string) LossFrame {
	f := LossFrame{}
	if codec == "av1" {
		f.MTU = uint16(biased(t, label+"mtu", 4, 200, 4, 5, 6, 8, 16, 50))
		if rapid.IntRange(0, 9).Draw(t, label+"bigmtu") == 0 {
			f.MTU = uint16(rapid.SampledFrom([]int{500, 1200, 9000, 40000}).Draw(t, label+"bigmtuval"))
		}
		mtu := int(f.MTU)
		k := rapid.IntRange(1, 4).Draw(t, label+"nobus")
		for i := 0; i < k; i++ {
			o := OBUSpec{Type: rapid.SampledFrom([]uint8{1, 3, 4, 5, 6, 6, 7, 15}).Draw(t, label+"type"), Seed: rapid.Uint64().Draw(t, label+"seed")}
			if genBool(t, label+"ext") {
				o.HasExt = true
				o.TID = uint8(rapid.IntRange(0, 1).Draw(t, label+"tid"))
			}
			o.Size = rapid.IntRange(0, 2*mtu).Draw(t, label+"size")
			if mustFragment && i == k-1 {
				o.Size = rapid.IntRange(mtu, 3*mtu).Draw(t, label+"bigsize")
			}
			f.OBUs = append(f.OBUs, o)
		}
		if genBool(t, label+"av1refenc") {
			// the independent encoder: other packet shapes than the library's payloader produces (W=0 with
			// every element length-prefixed, up to three elements per packet, fragments cut anywhere)
			f.RefEnc, f.AV1N = true, genBool(t, label+"av1n")
			total := 0
			for i := range f.OBUs {
				total += 2 + f.OBUs[i].Size
			}
			lo := maxi(1, total/24) // at most about two dozen packets per frame
			f.FUSize = rapid.IntRange(lo, maxi(lo, mtu-1)).Draw(t, label+"av1room")
			for i, k := 0, rapid.IntRange(1, 4).Draw(t, label+"av1nw"); i < k; i++ {
				f.AV1W = append(f.AV1W, rapid.IntRange(0, 1).Draw(t, label+"av1w"))
			}
		}

		return f
	}
	f.MTU = uint16(biased(t, label+"mtu", 4, 120, 4, 5, 6, 8, 16, 50))
	if rapid.IntRange(0, 9).Draw(t, label+"bigmtu") == 0 {
		f.MTU = uint16(rapid.SampledFrom([]int{500, 1200, 1400, 9000, 40000}).Draw(t, label+"bigmtuval")) // abandoned fragments of 1 KiB .. 100 KiB
	}
	mtu := int(f.MTU)
	f.RefEnc = genBool(t, label+"refenc")
	f.FUSize = rapid.IntRange(1, maxi(1, mtu-2)).Draw(t, label+"fusize")
	if f.RefEnc && rapid.IntRange(0, 3).Draw(t, label+"emptyfu") == 0 {
		f.EmptyFU = rapid.IntRange(1, 3).Draw(t, label+"emptyfuwhere")
	}
	if f.RefEnc && rapid.IntRange(0, 4).Draw(t, label+"sefu") == 0 {
		f.EmptyFU |= 4
	}
	if f.RefEnc && rapid.IntRange(0, 5).Draw(t, label+"fbit") == 0 {
		f.EmptyFU |= 8
	}
	if f.RefEnc && rapid.IntRange(0, 5).Draw(t, label+"rbit") == 0 {
		f.EmptyFU |= 16
	}
	k := rapid.IntRange(1, 3).Draw(t, label+"nnals")
	for i := 0; i < k; i++ {
		n := NALSpec{Type: rapid.SampledFrom([]uint8{1, 1, 5, 5, 6, 2, 3}).Draw(t, label+"type"), NRI: uint8(rapid.IntRange(0, 3).Draw(t, label+"nri")),
			Seed: rapid.Uint64().Draw(t, label+"seed"), StartCode: rapid.SampledFrom([]int{3, 4}).Draw(t, label+"sc")}
		n.Len = rapid.IntRange(2, 2*mtu).Draw(t, label+"len")
		if mustFragment && i == k-1 {
			n.Len = rapid.IntRange(mtu+1, 3*mtu).Draw(t, label+"biglen")
		}
		f.NALs = append(f.NALs, n)
	}
	if label == "b." && rapid.IntRange(0, 3).Draw(t, label+"paramsets") == 0 {
		// the frame starts with an SPS/PPS pair (a STAP-A from the library's payloader)
		sps := NALSpec{Type: 7, NRI: 3, Len: rapid.IntRange(2, 12).Draw(t, label+"spslen"), Seed: rapid.Uint64().Draw(t, label+"spsseed"), StartCode: 4}
		pps := NALSpec{Type: 8, NRI: 3, Len: rapid.IntRange(2, 6).Draw(t, label+"ppslen"), Seed: rapid.Uint64().Draw(t, label+"ppsseed"), StartCode: 3}
		f.NALs = append([]NALSpec{sps, pps}, f.NALs...)
	}

	return f
}

func genLossCase(t *rapid.T) *LossCase {
	c := &LossCase{Codec: rapid.SampledFrom([]string{"h264", "h264avc", "av1", "av1"}).Draw(t, "codec"), Seed: rapid.Uint64().Draw(t, "seed")}
	c.A = genLossFrame(t, c.Codec, true, "a.")
	c.B = genLossFrame(t, c.Codec, rapid.IntRange(0, 3).Draw(t, "bfrag") != 0, "b.")
	if rapid.IntRange(0, 5).Draw(t, "resend") == 0 {
		c.B = c.A // the sender repeats the very same frame (a re-sent key frame): packets identical to the abandoned ones
	}
	if rapid.IntRange(0, 4).Draw(t, "hasa2") == 0 {
		a2 := genLossFrame(t, c.Codec, true, "a2.")
		c.A2 = &a2
		c.A2Mask = rapid.Uint32().Draw(t, "a2mask")
	}
	if rapid.IntRange(0, 29).Draw(t, "hugeopen") == 17 { // a mid-range value: rapid favours the ends of a range
		// just below a round size (a reassembly limit would sit at one): 2^k - d bytes buffered
		k := rapid.SampledFrom([]int{20, 21, 22, 23, 24}).Draw(t, "hugeopenlog")
		if c.Codec == "av1" {
			k = rapid.SampledFrom([]int{18, 19, 20, 21}).Draw(t, "hugeopenlogav1") // the AV1 depacketizer re-copies its buffer per fragment
		}
		c.HugeOpen = 1<<uint(k) - rapid.SampledFrom([]int{0, 0, 1, 2, 3, 100}).Draw(t, "hugeopendelta")
	}
	ng := rapid.SampledFrom([]int{0, 0, 1, 1, 2, 5}).Draw(t, "ngarbage")
	var aPkts [][]byte
	if ng > 0 {
		aPkts = c.A.packets(c.Codec)
	}
	for i := 0; i < ng; i++ {
		var g []byte
		switch rapid.IntRange(0, 3).Draw(t, "garbagekind") {
		case 0:
			g = rapid.SliceOfN(rapid.Byte(), 0, 12).Draw(t, "garbage")
		case 1:
			// a stray fragment of the codec: continuation without start
			if c.Codec == "av1" {
				g = append([]byte{rapid.SampledFrom([]uint8{0xC0, 0x40, 0x80, 0x50, 0x90, 0x48, 0x08, 0xA0}).Draw(t, "g0")}, rapid.SliceOfN(rapid.Byte(), 1, 8).Draw(t, "gbody")...)
			} else {
				g = append([]byte{0x7C, rapid.SampledFrom([]uint8{0x05, 0x85, 0x45, 0x01}).Draw(t, "g1")}, rapid.SliceOfN(rapid.Byte(), 0, 8).Draw(t, "gbody")...)
			}
		default:
			// a damaged copy of one of frame A's own packets (truncated / bytes changed)
			if len(aPkts) == 0 {
				g = []byte{0}
			} else {
				src := aPkts[rapid.IntRange(0, len(aPkts)-1).Draw(t, "gsrc")]
				g = applyMuts(src, genMuts(t, 2, 4))
			}
		}
		if g == nil {
			g = []byte{}
		}
		c.Garbage = append(c.Garbage, Garbage{Pos: rapid.IntRange(0, 12).Draw(t, "gpos"), Data: g})
	}

	return c
}

const ruleC15 = "rapid draws (codec in {H264Packet Annex-B, H264Packet AVC, AV1Depacketizer}, frame A with at least one fragmented unit packetised by the library's payloader or an independent encoder (AV1: W=0 and counted forms, up to three elements per packet, fragments cut anywhere; H264: also empty fragments, start fragments flagged with the F bit, FU headers with the reserved R bit set and, for units that fit, single FU-As carrying S and E together), optionally a second lossy frame delivered under a drawn mask, frame B of any shape (sometimes starting with an SPS/PPS pair; one case in six B is frame A once more, packet for packet), 0-5 garbage inputs - random strings, stray continuation fragments or damaged copies of A's own packets - interleaved at drawn positions before, inside and after A and always delivered; about one case in 30 additionally delivers an end-less fragment train holding 2^k - {0,1,2,3,100} bytes (k 20-24; AV1 18-21) right before B); for A of up to 10 packets ALL 2^n delivery subsets are enumerated in order (1024 drawn subsets beyond that), each followed by the complete frame B; oracle: for every packet of B the output bytes, error-ness and AV1 Z/Y/N of the used receiver equal those of a fresh receiver fed B only. Non-trivial = case in which some subset leaves a fragment train open (start delivered, end lost) and B contains a fragmented unit; evaluations count cases plus enumerated subsets; distinct = FNV-64 of the JSON case"

func TestC15(t *testing.T) {
	r := begin(t, "C15", "fault_enumeration", ruleC15)
	defer r.finish()
	subC15.rapidRun(r, n(1000, 30000), genLossCase)
}
