package harness

// C05 — Header extension accessors behave as an ordered map that survives the wire.

import (
	"bytes"
	"fmt"
	"testing"

	"github.com/pion/rtp"
	"pgregory.net/rapid"
)

type ExtOp struct {
	Kind string `json:"kind"` // set | del | get | wire
	ID   uint8  `json:"id"`
	Len  int    `json:"len"`
	Seed uint64 `json:"seed"`
}

type ExtSeqCase struct {
	Start   string    `json:"start"`   // fresh | onebyte | twobyte | legacy | unmarshal
	Profile uint16    `json:"profile"` // for legacy
	Image   *WireCase `json:"image,omitempty"`
	// Earlier: images decoded into the SAME Header before Image (a receive loop reusing one Header); they must not matter
	Earlier []WireCase `json:"earlier,omitempty"`
	Ops     []ExtOp    `json:"ops"`
}

var subC05 = register("C05", "extmap", checkC05)

type kv struct {
	id  uint8
	val []byte
}

type extModel []kv

func (m extModel) find(id uint8) int {
	for i, e := range m {
		if e.id == id {
			return i
		}
	}

	return -1
}

func (m extModel) String() string {
	s := "["
	for i, e := range m {
		if i > 0 {
			s += " "
		}
		s += fmt.Sprintf("%d:%s", e.id, hx(e.val))
	}

	return s + "]"
}

// safeMarshal marshals a copy of the header, reporting a panic instead of dying.
func safeMarshal(h *rtp.Header) (b []byte, err error, panicked any) {
	defer func() {
		if p := recover(); p != nil {
			panicked = p
		}
	}()
	b, err = h.Marshal()

	return b, err, nil
}

func extSnapshot(h *rtp.Header) string {
	s := fmt.Sprintf("X%v prof%#x ids=%v", h.Extension, h.ExtensionProfile, h.GetExtensionIDs())
	for _, id := range h.GetExtensionIDs() {
		s += fmt.Sprintf(" %d=%s", id, hb(h.GetExtension(id)))
	}
	b, err, pn := safeMarshal(h)
	s += fmt.Sprintf(" marshal=%s err=%v panic=%v", hb(b), err != nil, pn != nil)

	return s
}

func isLegacyProfile(p uint16) bool { return p != 0xBEDE && p != 0x1000 }

func checkC05(r *run, c *ExtSeqCase) (CaseInfo, error) {
	var ci CaseInfo
	ci.class("start:" + c.Start)
	var h rtp.Header
	var model extModel
	h.Version = 2
	switch c.Start {
	case "onebyte":
		h.Extension, h.ExtensionProfile = true, 0xBEDE
	case "twobyte":
		h.Extension, h.ExtensionProfile = true, 0x1000
	case "legacy":
		h.Extension, h.ExtensionProfile = true, c.Profile
	case "unmarshal":
		img, _, _, err := c.Image.image()
		if err != nil {
			return ci, failf("reference builder: %v", err)
		}
		for k := range c.Earlier {
			if e, _, _, err := c.Earlier[k].image(); err == nil {
				_, _ = h.Unmarshal(e)
				ci.class("start:unmarshal-into-used-header")
			}
		}
		if _, err := h.Unmarshal(img); err != nil {
			return ci, failf("well-formed start image rejected: %v (%s)", err, hx(img))
		}
		for _, e := range c.Image.Model.Exts {
			model = append(model, kv{e.ID, clone(e.Val)})
		}
	}
	firstSetOnBare := c.Start == "fresh"
	var lastWire []byte // bytes of the latest Wire step of an RFC 8285 header, and what they carry
	var lastModel extModel
	accepted, changed, wired := 0, 0, 0

	invariant := func(step int, what string) error {
		ids := h.GetExtensionIDs()
		if len(model) == 0 {
			if len(ids) != 0 {
				return failf("step %d (%s): GetExtensionIDs=%v, model is empty", step, what, ids)
			}
		} else {
			if len(ids) != len(model) {
				return failf("step %d (%s): GetExtensionIDs=%v, model %s", step, what, ids, model)
			}
			for i, e := range model {
				if ids[i] != e.id {
					return failf("step %d (%s): GetExtensionIDs=%v, model %s", step, what, ids, model)
				}
			}
		}
		for _, e := range model {
			if got := h.GetExtension(e.id); !bytes.Equal(got, e.val) {
				return failf("step %d (%s): GetExtension(%d)=%s, model has %s", step, what, e.id, hx(got), hx(e.val))
			}
		}
		for _, id := range []uint8{0, 1, 2, 14, 15, 16, 100, 255} {
			if model.find(id) < 0 {
				if got := h.GetExtension(id); got != nil {
					return failf("step %d (%s): GetExtension(%d)=%s for an id the model does not hold", step, what, id, hx(got))
				}
			}
		}

		return nil
	}
	if err := invariant(-1, "start"); err != nil {
		return ci, err
	}

	for i, op := range c.Ops {
		switch op.Kind {
		case "set":
			val := expand(op.Seed, 0, op.Len)
			if op.Len == 0 {
				// an empty value reaches the library as nil or as an empty non-nil slice
				val = []byte{}
				if op.Seed&1 == 1 {
					val = nil
					ci.class("nil-value")
				}
			}
			before := extSnapshot(&h)
			bare := !h.Extension
			err := h.SetExtension(op.ID, val)
			what := fmt.Sprintf("SetExtension(%d,%dB)", op.ID, op.Len)
			if err == nil {
				accepted++
				if bare && firstSetOnBare {
					ci.class("first-set-on-bare-header")
				}
				if j := model.find(op.ID); j >= 0 {
					model[j].val = clone(val)
					changed++
				} else {
					model = append(model, kv{op.ID, clone(val)})
				}
			} else if after := extSnapshot(&h); after != before {
				return ci, failf("step %d: %s returned %q but changed the header:\n before: %s\n after:  %s", i, what, err, before, after)
			}
			if err := invariant(i, what); err != nil {
				return ci, err
			}
		case "fill":
			// fill the profile towards its capacity: ids op.ID.. upwards (as many as op.Len says)
			// each with a value of op.Seed%256 bytes; every accepted one enters the model
			vl := int(op.Seed % 256)
			for k := 0; k < op.Len; k++ {
				id := uint8(int(op.ID) + k)
				if id == 0 {
					continue
				}
				val := expand(op.Seed+uint64(k), 0, vl)
				if err := h.SetExtension(id, val); err == nil {
					accepted++
					if j := model.find(id); j >= 0 {
						model[j].val = clone(val)
						changed++
					} else {
						model = append(model, kv{id, clone(val)})
					}
				}
			}
			ci.class("fill")
			if err := invariant(i, fmt.Sprintf("fill(%d ids from %d, %dB each)", op.Len, op.ID, vl)); err != nil {
				return ci, err
			}
		case "del":
			before := extSnapshot(&h)
			err := h.DelExtension(op.ID)
			what := fmt.Sprintf("DelExtension(%d)", op.ID)
			if err == nil {
				if j := model.find(op.ID); j >= 0 {
					model = append(model[:j:j], model[j+1:]...)
					changed++
				}
			} else if after := extSnapshot(&h); after != before {
				return ci, failf("step %d: %s returned %q but changed the header:\n before: %s\n after:  %s", i, what, err, before, after)
			}
			if err := invariant(i, what); err != nil {
				return ci, err
			}
		case "get":
			if err := invariant(i, "get"); err != nil {
				return ci, err
			}
		case "rewire":
			// the header - with whatever Set/Del calls were made on it since - decodes the bytes an earlier
			// Wire step produced: it must then hold exactly what those bytes carry
			if lastWire == nil {
				continue
			}
			if _, err := h.Unmarshal(clone(lastWire)); err != nil {
				return ci, failf("step %d: the header rejects bytes it marshalled at an earlier step: %v (%s)", i, err, hx(lastWire))
			}
			model = append(extModel{}, lastModel...)
			ci.class("earlier-wire-image-decoded-into-the-used-header")
			if err := invariant(i, "Unmarshal of the bytes of an earlier Wire step into this header"); err != nil {
				return ci, err
			}
		case "wire":
			b, err, pn := safeMarshal(&h)
			if pn != nil {
				if h.Extension && isLegacyProfile(h.ExtensionProfile) && len(model) == 0 {
					if e := r.finding("F05-legacy-empty-marshal-panic", "step %d: Marshal panics on a legacy-profile header without a value: %v", i, pn); e != nil {
						return ci, e
					}

					return ci, nil
				}

				return ci, failf("step %d: Marshal panicked: %v (model %s, profile %#x)", i, pn, model, h.ExtensionProfile)
			}
			if err != nil {
				j := model.find(0)
				if h.Extension && isLegacyProfile(h.ExtensionProfile) && j >= 0 && len(model[j].val)%4 != 0 {
					ci.class("wire-refused-legacy-not-whole-words")

					continue
				}

				return ci, failf("step %d: Marshal refused a header whose extensions were all accepted: %v (model %s, profile %#x)", i, err, model, h.ExtensionProfile)
			}
			wired++
			if accepted > 0 && changed > 0 {
				ci.Nontrivial = true
			}
			pkt := append(clone(b), 0xAB, 0xCD)
			if op.Seed&2 == 2 {
				// header-only round trip: nothing follows the header on the wire
				pkt = clone(b)
				ci.class("wire-header-only")
			}
			if h.Extension && !isLegacyProfile(h.ExtensionProfile) {
				lastWire, lastModel = clone(pkt), nil
				for _, e := range model {
					lastModel = append(lastModel, kv{e.id, clone(e.val)})
				}
			}
			var h2 rtp.Header
			if _, err := h2.Unmarshal(pkt); err != nil {
				return ci, failf("step %d: Unmarshal rejects Marshal output %s: %v (model %s)", i, hx(pkt), err, model)
			}
			for _, e := range model {
				if got := h2.GetExtension(e.id); !bytes.Equal(got, e.val) || (got == nil && len(e.val) > 0) {
					return ci, failf("step %d: value accepted by SetExtension(%d,%dB) is not returned after Marshal/Unmarshal: got %s want %s (profile %#x, wire %s)",
						i, e.id, len(e.val), hx(got), hx(e.val), h.ExtensionProfile, hx(b))
				}
			}
			if h.Extension && !isLegacyProfile(h.ExtensionProfile) {
				ids := h2.GetExtensionIDs()
				if len(ids) != len(model) {
					return ci, failf("step %d: ids after the wire %v, model %s (wire %s)", i, ids, model, hx(b))
				}
				for k, e := range model {
					if ids[k] != e.id {
						return ci, failf("step %d: ids after the wire %v, model %s", i, ids, model)
					}
				}
				// keep going on the decoded header (a header "obtained from Unmarshal")
				if op.Seed&1 == 1 {
					h = h2
					ci.class("continued-on-decoded-header")
				}
			}
		}
	}
	if wired > 0 {
		ci.class("wired")
	}

	return ci, nil
}

func genExtSeqCase(t *rapid.T) *ExtSeqCase {
	c := &ExtSeqCase{Start: rapid.SampledFrom([]string{"fresh", "fresh", "onebyte", "twobyte", "legacy", "unmarshal"}).Draw(t, "start")}
	switch c.Start {
	case "legacy":
		for {
			c.Profile = genU16(t, "profile")
			if c.Profile != 0xBEDE && (c.Profile < 0x1000 || c.Profile > 0x100F) {
				break
			}
		}
		if rapid.IntRange(0, 5).Draw(t, "appbitsprofile") == 0 {
			// 0x1001-0x100F: next to the two-byte profile; whatever the library accepts under it must survive the wire
			c.Profile = uint16(0x1000 + rapid.IntRange(1, 15).Draw(t, "appbitsval"))
		}
	case "unmarshal":
		c.Image = genWireCase(t, false)
		if c.Image.Model.ExtKind == "legacy" && len(c.Image.Model.Exts[0].Val) > 64 {
			c.Image.Model.Exts[0].Val = c.Image.Model.Exts[0].Val[:64]
		}
		if genBool(t, "usedheader") {
			for k, n := 0, rapid.IntRange(1, 2).Draw(t, "nearlier"); k < n; k++ {
				c.Earlier = append(c.Earlier, *genWireCase(t, false))
			}
		}
	}
	steps := rapid.IntRange(1, 25).Draw(t, "steps")
	fillAt := -1 // one case in 60 fills the profile to capacity at some step (expensive: 64 KiB headers)
	if rapid.IntRange(0, 59).Draw(t, "hasfill") == 0 {
		fillAt = rapid.IntRange(0, steps-1).Draw(t, "fillat")
		if steps > 8 {
			steps = 8
		}
		if fillAt >= steps {
			fillAt = steps - 1
		}
	}
	usedIDs := []int{}
	for i := 0; i < steps; i++ {
		kind := rapid.SampledFrom([]string{"set", "set", "set", "del", "get", "wire", "set", "set", "del", "get", "wire", "rewire"}).Draw(t, "kind")
		if i == fillAt {
			kind = "fill"
		}
		op := ExtOp{Kind: kind}
		switch kind {
		case "set", "del":
			if len(usedIDs) > 0 && rapid.IntRange(0, 2).Draw(t, "reuseid") != 0 {
				op.ID = uint8(rapid.SampledFrom(usedIDs).Draw(t, "id"))
			} else {
				op.ID = uint8(biased(t, "id", 0, 255, 0, 1, 2, 3, 13, 14, 15, 16, 17, 254))
			}
			usedIDs = append(usedIDs, int(op.ID))
			if kind == "set" {
				op.Len = biased(t, "len", 0, 300, 0, 1, 2, 3, 4, 8, 15, 16, 17, 18, 254, 255, 256, 257)
				op.Seed = rapid.Uint64().Draw(t, "seed")
			}
		case "fill":
			op.ID = uint8(rapid.SampledFrom([]int{1, 1, 2, 200}).Draw(t, "fillfrom"))
			op.Len = rapid.SampledFrom([]int{14, 15, 16, 254, 255}).Draw(t, "fillcount")
			op.Seed = uint64(rapid.SampledFrom([]int{255, 255, 254, 253, 16, 1, 0}).Draw(t, "filllen")) + 256*uint64(rapid.IntRange(0, 1000).Draw(t, "fillseed"))
		case "wire":
			op.Seed = uint64(rapid.IntRange(0, 3).Draw(t, "continue")) // bit 0: continue on the decoded header, bit 1: header-only wire image
		}
		c.Ops = append(c.Ops, op)
	}

	return c
}

const ruleC05 = "rapid draws a start state (fresh, one-byte preset, two-byte preset, legacy preset with any profile (one in six: 0x1001-0x100F, next to the two-byte profile), header decoded from a reference image - half of the time into a Header that decoded 1-2 other images before) and 1-25 operations Set(id 0-255 biased to 0,1,14,15,16,255; value length 0-300 biased to 0,1,16,17,255,256; empty values as nil or as empty slices)/Del/Get/Wire(Marshal, with or without payload bytes behind the header, Unmarshal, optionally continue on the decoded header)/Rewire(the header, after further Set/Del calls, decodes the bytes of an earlier Wire step and must hold exactly what they carry)/Fill(set 14-255 consecutive ids with values of up to 255 bytes: the profile filled to capacity, extension blocks up to 65536 bytes); oracle: ordered-map model that follows the return values (nil => applied, error => header observably unchanged incl. Marshal bytes), no panic, every accepted value survives the wire, Marshal may refuse only a legacy value that is not whole words. Non-trivial = sequence with an accepted Set, a replacing Set or effective Del, and a successful Wire after them; distinct = FNV-64 of the JSON case"

func TestC05(t *testing.T) {
	r := begin(t, "C05", "exploration", ruleC05)
	defer r.finish()
	subC05.rapidRun(r, n(20000, 1200000), genExtSeqCase)
}
