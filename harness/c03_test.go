package harness

// C03 — RTP decoding conforms to RFC 3550/8285 and re-encoding is stable.

import (
	"bytes"
	"fmt"
	"testing"

	"github.com/pion/rtp"
	"pgregory.net/rapid"

	"verifharness/ref/rtpwire"
)

var (
	subC03Decode = register("C03", "decode", checkC03Decode)
	subC03Stable = register("C03", "stable", checkC03Stable)
	subC03Views  = register("C03", "views", checkC03Views)
	subC03App    = register("C03", "appbits", checkC03Appbits)
)

// checkC03Decode: RFC-well-formed image -> decoded exactly to what it was built from;
// canonical images re-encode byte-identically.
// c03Preload: well-formed packets a receiver has decoded before the image under test (index = image length mod 3;
// nil = fresh receiver only). Both carry two CSRCs, the marker, an extension block and three padding octets.
var c03Preload = [3][]byte{
	nil,
	{0xB2, 0xE0, 0x12, 0x34, 1, 2, 3, 4, 5, 6, 7, 8, 0xA, 0xB, 0xC, 0xD, 0x1A, 0x1B, 0x1C, 0x1D, 0xBE, 0xDE, 0x00, 0x01, 0x11, 0x77, 0x88, 0x00, 9, 9, 9, 0, 0, 3},
	{0xB2, 0xE0, 0x12, 0x34, 1, 2, 3, 4, 5, 6, 7, 8, 0xA, 0xB, 0xC, 0xD, 0x1A, 0x1B, 0x1C, 0x1D, 0x10, 0x00, 0x00, 0x01, 0x05, 0x01, 0x99, 0x00, 9, 9, 9, 0, 0, 3},
}

func checkC03Decode(r *run, c *WireCase) (CaseInfo, error) {
	var ci CaseInfo
	m := &c.Model
	m.classify(&ci)
	img, w, id15Off, err := c.image()
	if err != nil {
		return ci, failf("reference builder: %v", err)
	}
	// self-check of the trusted base: the strict reference parser reads the model back.
	if rp, perr := rtpwire.Parse(img); perr != nil {
		return ci, failf("harness bug: reference parser rejects reference image %s: %v", hx(img), perr)
	} else if cerr := compareWire(m, rp, c.canonical()); cerr != nil && !c.ID15 {
		return ci, failf("harness bug: reference parser disagrees with reference builder: %v", cerr)
	}
	interPad := c.PadAfter > 0 || c.ExtraWords > 0
	for _, p := range c.PadBefore {
		if p > 0 {
			interPad = true
		}
	}
	if interPad {
		ci.class("padding-between-elements")
	}
	if c.ID15 {
		ci.class("id15")
	}
	if c.canonical() {
		ci.class("canonical")
	}
	ci.Nontrivial = interPad || c.ID15 || ci.hasClass("ext-block-unpadded") || ci.hasClass("twobyte-0B-value") ||
		(len(m.CSRC) > 0 && m.ExtKind != "none" && m.PaddingSize > 0)

	in := clone(img)
	var p rtp.Packet
	if err := p.Unmarshal(in); err != nil {
		return ci, failf("well-formed image rejected (%d bytes, %s): %v", len(img), hx(img), err)
	}
	if !bytes.Equal(in, img) {
		return ci, failf("Unmarshal modified its input")
	}
	if err := m.compareHeader(&p.Header, "decode of "+hx(img)); err != nil {
		return ci, err
	}
	if p.PaddingSize != m.PaddingSize {
		return ci, failf("decode of %s: padding size %d, want %d", hx(img), p.PaddingSize, m.PaddingSize)
	}
	var h rtp.Header
	hn, herr := h.Unmarshal(clone(img))
	if herr != nil {
		return ci, failf("Header.Unmarshal rejects well-formed image %s: %v", hx(img), herr)
	}
	if hn != w.HeaderLen || !bytes.Equal(p.Payload, m.Payload) {
		// narrow signature of F03: a one-byte block with an id-15 element; everything
		// decoded as specified except that the header is reported to end right after the
		// id-15 byte, so the rest of the block is handed out as payload.
		if c.ID15 && id15Off >= 0 && hn == id15Off+1 && hn < w.HeaderLen &&
			bytes.Equal(p.Payload, img[hn:len(img)-int(m.PaddingSize)]) {
			if e := r.finding("F03-id15-payload-offset",
				"one-byte block with an id-15 element: header length %d (right after the id-15 byte) instead of %d (end of the block); %d block bytes returned as payload. image %s",
				hn, w.HeaderLen, w.HeaderLen-hn, hx(img)); e != nil {
				return ci, e
			}

			return ci, nil
		}

		return ci, failf("decode of %s: header length %d payload %s, want header length %d payload %s", hx(img), hn, hx(p.Payload), w.HeaderLen, hx(m.Payload))
	}
	if err := m.compareHeader(&h, "Header.Unmarshal of "+hx(img)); err != nil {
		return ci, err
	}
	// the same image decoded into a receiver that decoded another well-formed packet first (CSRCs, an extension
	// block of the other form, padding): what the standard says about this image does not depend on the receiver
	if pre := c03Preload[len(img)%3]; pre != nil {
		ci.class("receiver-decoded-another-packet-first")
		var q rtp.Packet
		if err := q.Unmarshal(clone(pre)); err != nil {
			return ci, failf("harness bug: preload image %s rejected: %v", hx(pre), err)
		}
		if err := q.Unmarshal(clone(img)); err != nil {
			return ci, failf("well-formed image %s rejected by a receiver that decoded %s before: %v", hx(img), hx(pre), err)
		}
		if err := m.compareHeader(&q.Header, "decode of "+hx(img)+" into a receiver that decoded "+hx(pre)+" before"); err != nil {
			return ci, err
		}
		if q.PaddingSize != m.PaddingSize || !bytes.Equal(q.Payload, m.Payload) {
			return ci, failf("decode of %s into a receiver that decoded %s before: padding size %d payload %s, want %d %s", hx(img), hx(pre), q.PaddingSize, hx(q.Payload), m.PaddingSize, hx(m.Payload))
		}
		var hq rtp.Header
		if _, err := hq.Unmarshal(clone(pre)); err != nil {
			return ci, failf("harness bug: preload image %s rejected by Header.Unmarshal: %v", hx(pre), err)
		}
		if n, err := hq.Unmarshal(clone(img)); err != nil || n != w.HeaderLen {
			return ci, failf("Header.Unmarshal of %s into a receiver that decoded %s before: n=%d err=%v, want %d", hx(img), hx(pre), n, err, w.HeaderLen)
		}
		if err := m.compareHeader(&hq, "Header.Unmarshal of "+hx(img)+" into a receiver that decoded "+hx(pre)+" before"); err != nil {
			return ci, err
		}
	}
	if c.canonical() {
		out, err := p.Marshal()
		if err != nil {
			return ci, failf("Marshal(decode(image)) failed: %v", err)
		}
		if !bytes.Equal(out, img) {
			return ci, failf("canonical image is not re-encoded byte-identically:\n in:  %s\n out: %s", hx(img), hx(out))
		}
	}

	return ci, nil
}

// AppbitsCase: a packet whose extension profile is 0x1000+K (K = 1..15), i.e. the RFC 8285 two-byte form with
// application bits - which pion/rtp documents and treats as an RFC 3550 profile. The block is built so that both
// readings are well-formed (one two-byte element of id ID with a 2-byte value = one 32-bit word of opaque data):
// whatever the reading, the profile reported is the one on the wire and re-encoding gives the input back.
type AppbitsCase struct {
	K  int   `json:"k"`
	ID uint8 `json:"id"`
}

func checkC03Appbits(r *run, c *AppbitsCase) (CaseInfo, error) {
	var ci CaseInfo
	ci.Nontrivial = true
	prof := uint16(0x1000 + c.K)
	img := []byte{0x90, 0x60, 0x12, 0x34, 0, 0, 0, 9, 0, 0, 0, 7, byte(prof >> 8), byte(prof), 0x00, 0x01, c.ID, 2, 0xAA, 0xBB, 0xC1, 0xC2}
	var p rtp.Packet
	if err := p.Unmarshal(clone(img)); err != nil {
		return ci, failf("packet with extension profile %#x rejected: %v (%s)", prof, err, hx(img))
	}
	if !p.Extension || p.ExtensionProfile != prof {
		return ci, failf("packet with extension profile %#x decodes to X=%v profile %#x", prof, p.Extension, p.ExtensionProfile)
	}
	if !bytes.Equal(p.Payload, img[20:]) {
		return ci, failf("packet with extension profile %#x: payload %s, want %s", prof, hx(p.Payload), hx(img[20:]))
	}
	out, err := p.Marshal()
	if err != nil || !bytes.Equal(out, img) {
		return ci, failf("packet with extension profile %#x is re-encoded as %s (err %v), input %s", prof, hx(out), err, hx(img))
	}
	// the packet decodes this block as RFC 3550 data: the raw view decodes the same block
	block := img[12:20]
	var raw rtp.RawExtension
	n, err := raw.Unmarshal(clone(block))
	if err != nil || n != len(block) {
		return ci, failf("raw view Unmarshal(%s) = (%d,%v), want (%d,nil): the packet decodes this block (profile %#x) as RFC 3550 data", hx(block), n, err, len(block), prof)
	}
	if ids := raw.GetIDs(); len(ids) != 1 || ids[0] != 0 {
		return ci, failf("raw view of %s: GetIDs=%v, want [0]", hx(block), ids)
	}
	if got := raw.Get(0); !bytes.HasSuffix(got, block[4:]) {
		return ci, failf("raw view of %s: Get(0)=%s does not end with the block data", hx(block), hx(got))
	}
	if vout, err := raw.Marshal(); err != nil || !bytes.Equal(vout, block) {
		return ci, failf("raw view of %s re-serialises to %s (err %v)", hx(block), hx(vout), err)
	}

	return ci, nil
}

func (ci *CaseInfo) hasClass(s string) bool {
	for _, k := range ci.Classes {
		if k == s {
			return true
		}
	}

	return false
}

// StableCase: any input; when Unmarshal accepts it, re-encoding must be stable.
type StableCase struct {
	In HexBytes `json:"in"`
}

func pktObs(p *rtp.Packet) string {
	s := fmt.Sprintf("V%d P%v X%v M%v PT%d seq%d ts%d ssrc%d csrc%v pad%d payload=%s",
		p.Version, p.Padding, p.Extension, p.Marker, p.PayloadType, p.SequenceNumber, p.Timestamp, p.SSRC,
		append([]uint32{}, p.CSRC...), p.PaddingSize, hb(p.Payload))
	if p.Extension {
		s += fmt.Sprintf(" prof%#x ids=%v", p.ExtensionProfile, p.GetExtensionIDs())
		for _, id := range p.GetExtensionIDs() {
			s += fmt.Sprintf(" %d=%s", id, hb(p.GetExtension(id)))
		}
	}

	return s
}

func checkC03Stable(r *run, c *StableCase) (CaseInfo, error) {
	var ci CaseInfo
	var p rtp.Packet
	if err := p.Unmarshal(clone(c.In)); err != nil {
		ci.class("rejected")

		return ci, nil
	}
	ci.class("accepted")
	ci.Nontrivial = true
	out, err := p.Marshal()
	if p.Padding && p.PaddingSize == 0 {
		ci.class("P-bit-zero-count")
		if err == nil {
			return ci, failf("accepted %s has the P bit with a zero count but Marshal succeeded", hx(c.In))
		}

		return ci, nil
	}
	if err != nil {
		return ci, failf("Unmarshal accepts %s but Marshal of the result fails: %v", hx(c.In), err)
	}
	if len(out) != p.MarshalSize() {
		return ci, failf("Marshal produced %d bytes, MarshalSize()=%d", len(out), p.MarshalSize())
	}
	var q rtp.Packet
	if err := q.Unmarshal(clone(out)); err != nil {
		return ci, failf("re-encoding of accepted %s is rejected: %s: %v", hx(c.In), hx(out), err)
	}
	if a, b := pktObs(&p), pktObs(&q); a != b {
		return ci, failf("re-encoding of accepted %s decodes differently:\n first:  %s\n second: %s", hx(c.In), a, b)
	}
	out2, err := q.Marshal()
	if err != nil || !bytes.Equal(out, out2) {
		return ci, failf("second re-encoding differs (covers duplicate ids): %s vs %s (err %v)", hx(out), hx(out2), err)
	}

	return ci, nil
}

// checkC03Views: the standalone HeaderExtension implementers on the exact block.
func checkC03Views(r *run, c *WireCase) (CaseInfo, error) {
	var ci CaseInfo
	m := &c.Model
	if m.ExtKind == "none" || c.ID15 {
		return ci, nil
	}
	ci.class("view:" + m.ExtKind)
	w, lay := c.wire()
	data, _, err := rtpwire.BlockData(w.Profile, w.Elems, lay)
	if err != nil {
		return ci, failf("reference builder: %v", err)
	}
	block := []byte{byte(w.Profile >> 8), byte(w.Profile), byte(len(data) / 4 >> 8), byte(len(data) / 4)}
	block = append(block, data...)
	ci.Nontrivial = len(m.Exts) > 0

	views := map[string]rtp.HeaderExtension{
		"onebyte": &rtp.OneByteHeaderExtension{}, "twobyte": &rtp.TwoByteHeaderExtension{}, "legacy": &rtp.RawExtension{},
	}
	// half of the cases: the view value has decoded another block and answered GetIDs/Get before (a view kept
	// across packets); what it reports for this block must not depend on that
	if m.Seq&1 == 1 {
		ci.class("view-used-before")
		earlier := map[string][]byte{
			"onebyte": {0xBE, 0xDE, 0x00, 0x01, 0x70, 0xAA, 0x90, 0xBB},
			"twobyte": {0x10, 0x00, 0x00, 0x02, 7, 1, 0xAA, 9, 1, 0xBB, 0, 0},
			"legacy":  {byte(w.Profile >> 8), byte(w.Profile), 0x00, 0x01, 1, 2, 3, 4},
		}
		for kind, v := range views {
			if _, err := v.Unmarshal(clone(earlier[kind])); err == nil {
				for _, id := range v.GetIDs() {
					_ = v.Get(id)
				}
			}
		}
	}
	for kind, v := range views {
		in := clone(block)
		n, err := v.Unmarshal(in)
		if kind != m.ExtKind {
			if err == nil {
				return ci, failf("%s view accepts a %s block %s", kind, m.ExtKind, hx(block))
			}

			continue
		}
		if err != nil || n != len(block) {
			return ci, failf("%s view Unmarshal(%s) = (%d,%v), want (%d,nil)", kind, hx(block), n, err, len(block))
		}
		ids := v.GetIDs()
		if len(ids) != len(m.Exts) {
			return ci, failf("%s view GetIDs=%v, want %d ids (block %s)", kind, ids, len(m.Exts), hx(block))
		}
		for i, e := range m.Exts {
			if ids[i] != e.ID {
				return ci, failf("%s view GetIDs=%v, want id %d at %d", kind, ids, e.ID, i)
			}
			got := v.Get(e.ID)
			if kind == "legacy" {
				// RawExtension keeps the whole serialised block as its value (its own
				// Set/Marshal convention); the data is what the block ends with.
				if !bytes.HasSuffix(got, e.Val) {
					return ci, failf("raw view Get(0)=%s does not end with the block data %s", hx(got), hx(e.Val))
				}
			} else if !bytes.Equal(got, e.Val) {
				return ci, failf("%s view Get(%d)=%s, want %s (block %s)", kind, e.ID, hx(got), hx(e.Val), hx(block))
			}
		}
		if kind != "legacy" {
			present := map[uint8]bool{}
			for _, e := range m.Exts {
				present[e.ID] = true
			}
			for _, id := range []uint8{1, 2, 7, 14, 200} {
				if kind == "onebyte" && id > 14 {
					continue
				}
				if !present[id] {
					if got := v.Get(id); got != nil {
						return ci, failf("%s view Get(%d)=%s for an absent id (block %s)", kind, id, hx(got), hx(block))
					}
				}
			}
		}
		out, err := v.Marshal()
		if err != nil || !bytes.Equal(out, block) {
			return ci, failf("%s view Marshal()=%s (err %v), want the block %s", kind, hx(out), err, hx(block))
		}
		if v.MarshalSize() != len(block) {
			return ci, failf("%s view MarshalSize()=%d, want %d", kind, v.MarshalSize(), len(block))
		}
		dst := bytes.Repeat([]byte{0xEE}, len(block)+5)
		wn, err := v.MarshalTo(dst)
		if err != nil || wn != len(block) || !bytes.Equal(dst[:wn], block) || !bytes.Equal(dst[wn:], []byte{0xEE, 0xEE, 0xEE, 0xEE, 0xEE}) {
			return ci, failf("%s view MarshalTo into a dirty oversized buffer: n=%d err=%v dst=%s", kind, wn, err, hx(dst))
		}
		if len(block) > 0 {
			short := make([]byte, len(block)-1)
			if _, err := v.MarshalTo(short); err == nil {
				return ci, failf("%s view MarshalTo into a short buffer succeeded", kind)
			}
		}
	}

	return ci, nil
}

func genStableCase(t *rapid.T) *StableCase {
	return &StableCase{In: genHostile(t, "in")}
}

const ruleC03 = "decode: wire images laid out by the independent reference builder from the RFC 3550/8285 grammar (any CC, one-byte/two-byte/legacy block, 0-5 (occasionally 6-1000) zero bytes before elements, trailing zeros and zero words, arbitrary RTP pad bytes, optional id-15 element with arbitrary tail, one image in six repeating an element id, one in a hundred with 255-700 elements) must decode to the model; canonical layouts must re-encode byte-identically. stable: every accepted input (valid images and 1-3 byte mutations, random strings) must re-encode to an equal packet and a byte-stable image, or report invalid padding for P with zero count. appbits: the 15 profiles 0x1001-0x100F on a block that is well-formed both as RFC 3550 data and as one two-byte element: profile kept, payload right, re-encoded identically, and the raw view decodes and re-serialises the same block. views: One/TwoByteHeaderExtension and RawExtension on the exact block (fresh view values, or ones that decoded another block and answered GetIDs/Get before). Non-trivial = padding between elements / flush element / zero-length element / id-15 / CC>0 with extension and padding (decode), accepted input (stable), block with >=1 element (views); distinct = FNV-64 of the JSON case; two cases in three also decode the image (Packet and Header) into a receiver that decoded another well-formed packet first (two CSRCs, marker, one-byte or two-byte extension block, padding) and compare it with the model in the same way"

func TestC03(t *testing.T) {
	r := begin(t, "C03", "exploration", ruleC03)
	defer r.finish()
	subC03Decode.rapidRun(r, n(15000, 300000), func(t *rapid.T) *WireCase { return genWireCase(t, true) })
	subC03Stable.rapidRun(r, n(25000, 500000), genStableCase)
	subC03Views.rapidRun(r, n(8000, 150000), func(t *rapid.T) *WireCase { return genWireCase(t, false) })
	for k := 1; k <= 15; k++ {
		for _, id := range []uint8{1, 15, 200} {
			subC03App.one(r, &AppbitsCase{K: k, ID: id})
		}
	}
}
