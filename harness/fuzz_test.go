package harness

// Native coverage-guided fuzz targets (thorough tier only; `go test -fuzz`). Each
// target decodes the fuzzer's bytes into the same explicit Case type the rapid
// checks use and calls the same pure check function, so the semantic oracle (not
// just "does it crash") is inside the target and a crasher converts to a JSON
// replay. Seeds are small valid inputs built by the reference encoders plus
// hostile constants.

import (
	"encoding/json"
	"os"
	"path/filepath"
	"testing"

	"pgregory.net/rapid"

	"verifharness/ev"
	"verifharness/ref/rtpwire"
	"verifharness/ref/vla"
)

func fuzzRun(prop string) *run {
	loadKnown()

	return &run{prop: prop, col: ev.New(prop, "fuzz", 0, 0, 1, "exploration")}
}

// reportFuzz fails the fuzz iteration and leaves a JSON replay next to the crasher.
func reportFuzz[C any](t *testing.T, s *Sub[C], c *C, err error) {
	t.Helper()
	raw, _ := json.Marshal(c)
	b, _ := json.MarshalIndent(replayFile{Property: s.prop, Sub: s.name, Error: firstLine(err.Error()), Case: raw}, "", " ")
	dir := getenv("VERIF_REPLAY_DIR", "/verif/replays")
	_ = os.MkdirAll(dir, 0o755)
	p := filepath.Join(dir, s.prop+"-"+s.name+"-fuzz.json")
	_ = os.WriteFile(p, b, 0o644)
	t.Fatalf("%s/%s: %v\nreplay: %s", s.prop, s.name, err, p)
}

func seedImages() [][]byte {
	var out [][]byte
	mk := func(p *rtpwire.Packet, lay *rtpwire.Layout) {
		if b, err := rtpwire.Build(p, lay); err == nil {
			out = append(out, b)
		}
	}
	mk(&rtpwire.Packet{Version: 2, PT: 96, Seq: 1, TS: 2, SSRC: 3, Payload: []byte{1, 2, 3}}, nil)
	mk(&rtpwire.Packet{Version: 2, Ext: true, Profile: 0xBEDE, Elems: []rtpwire.Elem{{ID: 1, Val: []byte{9}}, {ID: 2, Val: []byte{1, 2, 3, 4}}}, Payload: []byte{7}}, &rtpwire.Layout{PadBefore: []int{0, 2}, PadAfter: 1})
	mk(&rtpwire.Packet{Version: 2, Ext: true, Profile: 0x1000, Elems: []rtpwire.Elem{{ID: 200, Val: []byte{}}, {ID: 3, Val: make([]byte, 17)}}, CSRC: []uint32{1, 2}, Padding: true, PadLen: 4, Payload: []byte{7, 8}}, nil)
	mk(&rtpwire.Packet{Version: 2, Ext: true, Profile: 0x1234, Elems: []rtpwire.Elem{{ID: 0, Val: make([]byte, 8)}}}, nil)
	out = append(out, []byte{0x90, 0, 0, 0, 0, 0, 0, 0, 0, 0, 0, 0, 0xBE, 0xDE, 0, 1, 0xF0, 0, 0, 0}, []byte{0xB0, 0, 0, 0, 0, 0, 0, 0, 0, 0, 0, 0, 0x10, 0, 0xFF, 0xFF}, []byte{})

	return out
}

func FuzzC02(f *testing.F) {
	for _, s := range seedImages() {
		f.Add(s, s)
		f.Add([]byte(nil), s)
	}
	r := fuzzRun("C02")
	f.Fuzz(func(t *testing.T, a, b []byte) {
		c := &ParseCase{A: a, B: b, HasA: len(a) > 0}
		if c.B == nil {
			c.B = []byte{}
		}
		if _, err := subC02.exec(r, c); err != nil {
			reportFuzz(t, subC02, c, err)
		}
	})
}

func FuzzC03(f *testing.F) {
	for _, s := range seedImages() {
		f.Add(s)
	}
	r := fuzzRun("C03")
	f.Fuzz(func(t *testing.T, b []byte) {
		c := &StableCase{In: b}
		if c.In == nil {
			c.In = []byte{}
		}
		if _, err := subC03Stable.exec(r, c); err != nil {
			reportFuzz(t, subC03Stable, c, err)
		}
	})
}

// splitCalls cuts b into chunks: each chunk is prefixed by one length byte.
func splitChunks(b []byte, max int) [][]byte {
	var out [][]byte
	for len(b) > 0 && len(out) < max {
		l := int(b[0])
		b = b[1:]
		if l > len(b) {
			l = len(b)
		}
		out = append(out, b[:l])
		b = b[l:]
	}

	return out
}

func FuzzC08(f *testing.F) {
	f.Add(uint8(3), uint16(100), []byte{8, 0, 0, 0, 1, 0x67, 1, 2, 3, 7, 0, 0, 0, 1, 0x68, 9, 9, 9, 0, 0, 0, 1, 0x65, 1, 2, 3, 4, 5})
	f.Add(uint8(13), uint16(5), []byte{6, 0x0A, 0x03, 1, 2, 3, 0x30})
	f.Add(uint8(5), uint16(6), []byte{9, 0, 0, 1, 0x26, 1, 2, 3, 4, 5})
	f.Add(uint8(12), uint16(12), []byte{12, 0x82, 0x49, 0x83, 0x42, 0, 0, 0x10, 0, 0x10, 0, 1, 2})
	f.Add(uint8(0), uint16(0), []byte{0})
	r := fuzzRun("C08")
	f.Fuzz(func(t *testing.T, which uint8, mtu uint16, b []byte) {
		c := &PayGenericCase{Payloader: c08Payloaders[int(which)%len(c08Payloaders)]}
		for _, ch := range splitChunks(b, 4) {
			call := PayCall{MTU: mtu, Data: clone(ch)}
			if call.Data == nil {
				call.Data = []byte{}
			}
			if mtu < 8 && len(call.Data) > 600 {
				call.Data = call.Data[:600]
			}
			c.Calls = append(c.Calls, call)
		}
		if len(c.Calls) == 0 {
			c.Calls = []PayCall{{MTU: mtu, Nil: true}}
		}
		if _, err := subC08.exec(r, c); err != nil {
			reportFuzz(t, subC08, c, err)
		}
	})
}

func FuzzC09(f *testing.F) {
	f.Add(uint8(0), []byte{5, 0x7C, 0x85, 1, 2, 3, 4, 0x7C, 0x45, 4, 5})
	f.Add(uint8(7), []byte{5, 0x50, 0x32, 9, 9, 9, 3, 0x90, 1, 2})
	f.Add(uint8(6), []byte{14, 0x9A, 0x81, 0x02, 0x05, 0x07, 0x18, 0x00, 0x01, 0x00, 0x01, 0x01, 0x14, 0x01, 0x77})
	f.Add(uint8(5), []byte{6, 0x90, 0xF0, 0x81, 0x02, 0x03, 0x04})
	f.Add(uint8(3), []byte{8, 0x60, 0x01, 0, 2, 1, 2, 0, 3, 3, 4, 5})
	f.Add(uint8(4), []byte{9, 0x64, 0x01, 0x00, 0x38, 1, 2, 3, 0x77, 0x78})
	r := fuzzRun("C09")
	f.Fuzz(func(t *testing.T, which uint8, b []byte) {
		c := &DepCase{Receiver: c09Receivers[int(which)%len(c09Receivers)]}
		for i, ch := range splitChunks(b, 8) {
			st := DepStep{Op: "unmarshal", Data: clone(ch)}
			if st.Data == nil {
				st.Data = []byte{}
			}
			if len(ch) > 0 && i%3 == 2 {
				st.Op = []string{"head", "tail"}[int(ch[0])&1]
				st.Marker = ch[0]&2 != 0
			}
			c.Steps = append(c.Steps, st)
		}
		if len(c.Steps) == 0 {
			c.Steps = []DepStep{{Op: "unmarshal", Nil: true}}
		}
		if _, err := subC09.exec(r, c); err != nil {
			reportFuzz(t, subC09, c, err)
		}
	})
}

func FuzzC19(f *testing.F) {
	for _, a := range []*vla.Alloc{
		{RID: 0, Streams: 1, Layers: []vla.Layer{{Stream: 0, Spatial: 0, Bitrates: []uint64{100}}}},
		{RID: 1, Streams: 3, HasRes: true, Layers: []vla.Layer{{Stream: 0, Spatial: 0, Bitrates: []uint64{100, 200}, Width: 320, Height: 180, FPS: 15}, {Stream: 2, Spatial: 1, Bitrates: []uint64{70000}, Width: 1280, Height: 720, FPS: 30}}},
	} {
		f.Add(vla.Encode(a), []byte(nil))
		f.Add(vla.Encode(a), vla.Encode(a))
	}
	f.Add([]byte{0xFF, 0xFF, 0xFF, 0xFF, 0xFF, 0xFF, 0xFF, 0xFF, 0xFF, 0xFF, 0xFF, 0xFF}, []byte{0})
	r := fuzzRun("C19")
	f.Fuzz(func(t *testing.T, raw, prev []byte) {
		c := &VLARawCase{Raw: raw, Prev: prev}
		if c.Raw == nil {
			c.Raw = []byte{}
		}
		if len(prev) == 0 {
			c.Prev = nil
		}
		if _, err := subC19Raw.exec(r, c); err != nil {
			reportFuzz(t, subC19Raw, c, err)
		}
	})
}

// ---- coverage-guided exploration of the rapid generators themselves
//
// rapid.MakeFuzz turns a rapid property into a native fuzz target: the fuzzer's bytes
// become rapid's random bit stream, so `go test -fuzz` searches the space of generator
// choices guided by coverage of the code under test (all cores). Same cases, same pure
// check functions, same JSON replay on failure.

func rapidFuzz[C any](f *testing.F, s *Sub[C], gen func(*rapid.T) *C) {
	f.Helper()
	m := splitmix{s: 0xC0FFEE}
	for i := 0; i < 8; i++ {
		b := make([]byte, 64<<uint(i%4))
		for j := range b {
			b[j] = byte(m.next())
		}
		f.Add(b)
	}
	f.Add(make([]byte, 512))
	r := fuzzRun(s.prop)
	f.Fuzz(rapid.MakeFuzz(func(t *rapid.T) {
		c := gen(t)
		if _, err := s.exec(r, c); err != nil {
			raw, _ := json.Marshal(c)
			b, _ := json.MarshalIndent(replayFile{Property: s.prop, Sub: s.name, Error: firstLine(err.Error()), Case: raw}, "", " ")
			dir := getenv("VERIF_REPLAY_DIR", "/verif/replays")
			_ = os.MkdirAll(dir, 0o755)
			p := filepath.Join(dir, s.prop+"-"+s.name+"-fuzz.json")
			_ = os.WriteFile(p, b, 0o644)
			t.Fatalf("%s/%s: %v\nreplay: %s", s.prop, s.name, err, p)
		}
	}))
}

func FuzzRapidC01(f *testing.F)     { rapidFuzz(f, subC01, genPacketModel) }
func FuzzRapidC05(f *testing.F)     { rapidFuzz(f, subC05, genExtSeqCase) }
func FuzzRapidC06(f *testing.F)     { rapidFuzz(f, subC06, genPktzCase) }
func FuzzRapidC10(f *testing.F)     { rapidFuzz(f, subC10Pay, genH264PayCase) }
func FuzzRapidC10Dec(f *testing.F)  { rapidFuzz(f, subC10Dec, genH264DecCase) }
func FuzzRapidC11(f *testing.F)     { rapidFuzz(f, subC11Desc, genVP8DescCase) }
func FuzzRapidC12(f *testing.F)     { rapidFuzz(f, subC12Pay, genVP9PayCase) }
func FuzzRapidC12Desc(f *testing.F) { rapidFuzz(f, subC12Desc, genVP9DescCase) }
func FuzzRapidC13(f *testing.F)     { rapidFuzz(f, subC13, genAV1Case) }
func FuzzRapidC14(f *testing.F)     { rapidFuzz(f, subC14Pay, genH265PayCase) }
func FuzzRapidC14Dec(f *testing.F)  { rapidFuzz(f, subC14Dec, genH265DecCase) }
func FuzzRapidC15(f *testing.F)     { rapidFuzz(f, subC15, genLossCase) }
func FuzzRapidC20(f *testing.F)     { rapidFuzz(f, subC20, genCloneCase) }
