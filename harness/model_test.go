package harness

// PacketModel: the abstract content of a well-formed rtp.Packet (C01's domain),
// constructible through the public API only. Shared by C01, C03(4), C04, C20.

import (
	"bytes"
	"errors"
	"fmt"

	"github.com/pion/rtp"
	"pgregory.net/rapid"

	"verifharness/ref/rtpwire"
)

// errAppbitsNotLegacy: the library refuses an id-0 value under a 0x100X profile, i.e.
// it does not treat that profile as legacy (any more): such a model is outside the
// domain rather than a violation.
var errAppbitsNotLegacy = errors.New("profile 0x100X is not a legacy profile for this library")

type ExtElem struct {
	ID  uint8    `json:"id"`
	Val HexBytes `json:"val"`
}

type PacketModel struct {
	Version     uint8     `json:"version"`
	Marker      bool      `json:"marker"`
	PT          uint8     `json:"pt"`
	Seq         uint16    `json:"seq"`
	TS          uint32    `json:"ts"`
	SSRC        uint32    `json:"ssrc"`
	CSRC        []uint32  `json:"csrc"` // nil and empty are both "no CSRC"
	ExtKind     string    `json:"ext_kind"`
	Profile     uint16    `json:"profile"`
	Exts        []ExtElem `json:"exts"`
	Payload     HexBytes  `json:"payload"`
	PaddingSize uint8     `json:"padding_size"`
}

// header builds the rtp.Header through the public API.
func (m *PacketModel) header() (rtp.Header, error) {
	h := rtp.Header{
		Version: m.Version, Marker: m.Marker, PayloadType: m.PT, SequenceNumber: m.Seq,
		Timestamp: m.TS, SSRC: m.SSRC, Padding: m.PaddingSize > 0,
	}
	if m.CSRC != nil {
		h.CSRC = append([]uint32{}, m.CSRC...)
	}
	if m.ExtKind != "none" {
		h.Extension = true
		h.ExtensionProfile = m.Profile
		for _, e := range m.Exts {
			if err := h.SetExtension(e.ID, clone(e.Val)); err != nil {
				if m.ExtKind == "legacy" && m.Profile >= 0x1001 && m.Profile <= 0x100F {
					return h, errAppbitsNotLegacy
				}

				return h, fmt.Errorf("SetExtension(%d,%dB) on %s profile: %w", e.ID, len(e.Val), m.ExtKind, err)
			}
		}
	}

	return h, nil
}

func (m *PacketModel) packet() (*rtp.Packet, error) {
	h, err := m.header()
	if err != nil {
		return nil, err
	}

	return &rtp.Packet{Header: h, Payload: clone(m.Payload), PaddingSize: m.PaddingSize}, nil
}

// wire is the reference model of the same packet.
func (m *PacketModel) wire() *rtpwire.Packet {
	w := &rtpwire.Packet{
		Version: m.Version, Marker: m.Marker, PT: m.PT, Seq: m.Seq, TS: m.TS, SSRC: m.SSRC,
		CSRC: m.CSRC, Padding: m.PaddingSize > 0, PadLen: int(m.PaddingSize),
		Ext: m.ExtKind != "none", Profile: m.Profile, Payload: m.Payload,
	}
	for _, e := range m.Exts {
		w.Elems = append(w.Elems, rtpwire.Elem{ID: e.ID, Val: e.Val})
	}

	return w
}

// headerSize is the RFC size of the header of the model.
func (m *PacketModel) headerSize() int {
	n := 12 + 4*len(m.CSRC)
	if m.ExtKind == "none" {
		return n
	}
	sz := 0
	for _, e := range m.Exts {
		switch m.ExtKind {
		case "onebyte":
			sz += 1 + len(e.Val)
		case "twobyte":
			sz += 2 + len(e.Val)
		default:
			sz += len(e.Val)
		}
	}

	return n + 4 + (sz+3)/4*4
}

// compareHeader checks every observable of h against the model.
func (m *PacketModel) compareHeader(h *rtp.Header, what string) error {
	if h.Version != m.Version || h.Marker != m.Marker || h.PayloadType != m.PT || h.SequenceNumber != m.Seq ||
		h.Timestamp != m.TS || h.SSRC != m.SSRC || h.Padding != (m.PaddingSize > 0) {
		return failf("%s: fixed fields differ: got V=%d M=%v PT=%d seq=%d ts=%d ssrc=%d P=%v", what,
			h.Version, h.Marker, h.PayloadType, h.SequenceNumber, h.Timestamp, h.SSRC, h.Padding)
	}
	if len(h.CSRC) != len(m.CSRC) {
		return failf("%s: CSRC count %d, want %d", what, len(h.CSRC), len(m.CSRC))
	}
	for i := range m.CSRC {
		if h.CSRC[i] != m.CSRC[i] {
			return failf("%s: CSRC[%d]=%#x, want %#x", what, i, h.CSRC[i], m.CSRC[i])
		}
	}
	if h.Extension != (m.ExtKind != "none") {
		return failf("%s: Extension=%v, want %v", what, h.Extension, m.ExtKind != "none")
	}
	if m.ExtKind == "none" {
		if ids := h.GetExtensionIDs(); len(ids) != 0 {
			return failf("%s: extension ids %v on a header without extension", what, ids)
		}

		return nil
	}
	if h.ExtensionProfile != m.Profile {
		return failf("%s: profile %#x, want %#x", what, h.ExtensionProfile, m.Profile)
	}
	ids := h.GetExtensionIDs()
	if len(ids) != len(m.Exts) {
		return failf("%s: extension ids %v, want %d elements", what, ids, len(m.Exts))
	}
	for i, e := range m.Exts {
		if ids[i] != e.ID {
			return failf("%s: extension id[%d]=%d, want %d (ids %v)", what, i, ids[i], e.ID, ids)
		}
		// GetExtension returns the first element with that id (a wire image may repeat an id)
		first := e.Val
		for _, f := range m.Exts {
			if f.ID == e.ID {
				first = f.Val

				break
			}
		}
		if got := h.GetExtension(e.ID); !bytes.Equal(got, first) {
			return failf("%s: extension %d value %s, want %s", what, e.ID, hx(got), hx(first))
		}
	}

	return nil
}

func (m *PacketModel) comparePacket(p *rtp.Packet, what string) error {
	if err := m.compareHeader(&p.Header, what); err != nil {
		return err
	}
	if !bytes.Equal(p.Payload, m.Payload) {
		return failf("%s: payload %s, want %s", what, hx(p.Payload), hx(m.Payload))
	}
	if p.PaddingSize != m.PaddingSize {
		return failf("%s: padding size %d, want %d", what, p.PaddingSize, m.PaddingSize)
	}

	return nil
}

// classes of a model (for the evidence histogram and the non-trivial rule).
func (m *PacketModel) classify(ci *CaseInfo) {
	ci.class("ext:" + m.ExtKind)
	if len(m.CSRC) > 0 {
		ci.class("csrc>0")
	}
	if len(m.CSRC) == 15 {
		ci.class("csrc=15")
	}
	if m.PaddingSize > 0 {
		ci.class("padding")
	}
	if len(m.Payload) == 0 {
		ci.class("empty-payload")
		if m.PaddingSize > 0 {
			ci.class("padding-only")
		}
	}
	flush := false
	if m.ExtKind == "onebyte" || m.ExtKind == "twobyte" {
		sz := 0
		for _, e := range m.Exts {
			sz += len(e.Val) + 1
			if m.ExtKind == "twobyte" {
				sz++
			}
			if m.ExtKind == "onebyte" && len(e.Val) == 16 {
				ci.class("onebyte-16B-value")
			}
			if m.ExtKind == "twobyte" && (len(e.Val) == 0 || len(e.Val) == 255) {
				ci.class(fmt.Sprintf("twobyte-%dB-value", len(e.Val)))
			}
		}
		flush = sz > 0 && sz%4 == 0
		if flush {
			ci.class("ext-block-unpadded")
		}
		if flush && len(m.Payload) == 0 && m.PaddingSize == 0 {
			ci.class("ext-flush-with-packet-end")
		}
		if len(m.Exts) == 0 {
			ci.class("ext-empty-block")
		}
	}
	ci.Nontrivial = m.ExtKind != "none" || len(m.CSRC) > 0 || m.PaddingSize > 0 || len(m.Payload) == 0
}

// allowAppbitsProfiles lets genPacketModel use profiles 0x1001-0x100F as legacy
// profiles (switched off while drawing RFC wire images for C02/C03/C05, whose
// reference classifies those by the RFC).
var allowAppbitsProfiles = true

// genPacketModel draws a well-formed packet (the quantifier of C01).
func genPacketModel(t *rapid.T) *PacketModel {
	m := &PacketModel{
		Version: uint8(rapid.SampledFrom([]int{2, 2, 2, 0, 1, 3}).Draw(t, "version")),
		Marker:  genBool(t, "marker"),
		PT:      uint8(biased(t, "pt", 0, 127, 96, 111)),
		Seq:     genU16(t, "seq"),
		TS:      genU32(t, "ts"),
		SSRC:    genU32(t, "ssrc"),
	}
	switch ncs := biased(t, "ncsrc", 0, 15, 0, 0, 1); {
	case ncs > 0:
		m.CSRC = make([]uint32, ncs)
		for i := range m.CSRC {
			m.CSRC[i] = genU32(t, "csrc")
		}
	case genBool(t, "csrc-empty-nonnil"):
		m.CSRC = []uint32{}
	}
	m.ExtKind = rapid.SampledFrom([]string{"none", "onebyte", "onebyte", "twobyte", "twobyte", "legacy"}).Draw(t, "extkind")
	switch m.ExtKind {
	case "onebyte":
		m.Profile = rtpwire.ProfileOneByte
		k := biased(t, "nexts", 0, 14, 1, 2, 3)
		for _, id := range distinctIDs(t, "ids", k, 1, 14) {
			l := biased(t, "vlen", 1, 16, 1, 2, 3, 4, 7, 8, 11, 15, 16)
			m.Exts = append(m.Exts, ExtElem{ID: id, Val: genBytesN(t, "val", l)})
		}
	case "twobyte":
		m.Profile = rtpwire.ProfileTwoByte
		fullEvery := 149
		if !allowAppbitsProfiles {
			fullEvery = 799 // wire-image cases (C02/C03/C05) are executed several times each: keep the 64 KiB blocks rarer there
		}
		if rapid.IntRange(0, fullEvery).Draw(t, "fulltwobyte") == 0 {
			// the profile filled to (or next to) capacity: up to 255 ids x 255 bytes = a 65536-byte block
			n := rapid.SampledFrom([]int{255, 255, 254, 253}).Draw(t, "fullcount")
			vl := rapid.SampledFrom([]int{255, 255, 254, 253, 252}).Draw(t, "fullvlen")
			seed := rapid.Uint64().Draw(t, "fullseed")
			for id := 1; id <= n; id++ {
				m.Exts = append(m.Exts, ExtElem{ID: uint8(id), Val: expand(seed+uint64(id), 0, vl)})
			}

			break
		}
		k := biased(t, "nexts", 0, 30, 1, 2, 3)
		for _, id := range distinctIDs(t, "ids", k, 1, 255) {
			l := biased(t, "vlen", 0, 255, 0, 1, 2, 6, 16, 17, 254, 255)
			if k > 6 {
				l = biased(t, "vlen", 0, 40, 0, 1, 2, 6, 16, 17)
			}
			m.Exts = append(m.Exts, ExtElem{ID: id, Val: genBytesN(t, "val", l)})
		}
	case "legacy":
		for {
			m.Profile = genU16(t, "profile")
			if m.Profile != rtpwire.ProfileOneByte && (m.Profile < 0x1000 || m.Profile > 0x100F) {
				break
			}
		}
		if allowAppbitsProfiles && rapid.IntRange(0, 7).Draw(t, "appbits") == 0 {
			// 0x1001-0x100F: RFC 8285 two-byte form with appbits, which pion/rtp documents
			// and treats as an RFC 3550 (legacy) profile; used by C01/C04/C20 only
			m.Profile = uint16(0x1000 + rapid.IntRange(1, 15).Draw(t, "appbitsval"))
		}
		w := biased(t, "words", 0, 64, 0, 1, 2)
		if rapid.IntRange(0, 199).Draw(t, "hugewords") == 0 {
			w = biased(t, "words", 65, 65535, 65535, 16384)
		}
		m.Exts = []ExtElem{{ID: 0, Val: genBytesN(t, "val", 4*w)}}
	}
	plen := biased(t, "plen", 0, 1500, 0, 0, 1, 2, 3, 4)
	if rapid.IntRange(0, 199).Draw(t, "jumbopayload") == 0 {
		plen = rapid.SampledFrom([]int{65507, 65535, 65536, 65537, 70000}).Draw(t, "jumboplen")
	}
	m.Payload = genBytesN(t, "payload", plen)
	if genBool(t, "haspad") {
		m.PaddingSize = uint8(biased(t, "pad", 1, 255, 1, 2, 3, 4, 5, 254, 255))
	}

	return m
}
