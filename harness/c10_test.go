package harness

// C10 — H264 packetization is lossless and RFC 6184-shaped.

import (
	"bytes"
	"fmt"
	"testing"

	"github.com/pion/rtp/codecs"
	"pgregory.net/rapid"

	"verifharness/ref/h264rtp"
)

type NALSpec struct {
	Type      uint8  `json:"type"`
	NRI       uint8  `json:"nri"`
	Len       int    `json:"len"` // total length including the header octet, >= 2
	Seed      uint64 `json:"seed"`
	StartCode int    `json:"start_code"` // 3 or 4
}

// nal renders the unit: header + body free of start-code emulation, last byte non-zero.
func (n *NALSpec) nal() []byte {
	b := expand(n.Seed, 0, n.Len)
	b[0] = n.NRI<<5 | n.Type&0x1F
	if n.Seed&3 == 0 {
		// real bitstreams contain runs of zeros and emulation-prevention bytes (00 00 03)
		step := 5 + int(n.Seed>>8)%7
		for i := 2; i+3 < len(b); i += step {
			b[i], b[i+1] = 0, 0
			if n.Seed&4 == 0 {
				b[i+2] = 3
			}
		}
	}
	zeros := 0
	for i := 1; i < len(b); i++ {
		if zeros >= 2 && b[i] <= 2 {
			b[i] |= 0x04 // 00 00 00/01/02 cannot occur inside a NAL unit; 00 00 03 (emulation prevention) can
		}
		if b[i] == 0 {
			zeros++
		} else {
			zeros = 0
		}
	}
	if b[len(b)-1] == 0 {
		b[len(b)-1] = 0x80
	}
	if n.Seed&0x30000 == 0x10000 && len(b) >= 5 {
		// an RBSP that ends in zero words gets a final emulation-prevention byte: the unit ends in 00 00 03
		b[len(b)-3], b[len(b)-2], b[len(b)-1] = 0, 0, 3
		if b[len(b)-4] == 0 {
			b[len(b)-4] = 0x55
		}
	}

	return b
}

type H264Call struct {
	Units       []NALSpec `json:"units"`
	LeadingZero bool      `json:"leading_zero"`
	Lead        int       `json:"lead,omitempty"` // further zero bytes in front of the first start code (leading_zero_8bits)
	Bare        bool      `json:"bare"`           // a single unit handed over without start code
}

func (c *H264Call) buffer() []byte {
	if c.Bare && len(c.Units) == 1 {
		return c.Units[0].nal()
	}
	var out []byte
	if c.LeadingZero {
		out = append(out, 0)
	}
	out = append(out, make([]byte, c.Lead)...)
	for i := range c.Units {
		if c.Units[i].StartCode == 4 {
			out = append(out, 0, 0, 0, 1)
		} else {
			out = append(out, 0, 0, 1)
		}
		out = append(out, c.Units[i].nal()...)
	}

	return out
}

type H264PayCase struct {
	MTU          uint16     `json:"mtu"`
	DisableStapA bool       `json:"disable_stap_a"`
	AVC          bool       `json:"avc"`
	Calls        []H264Call `json:"calls"`
	// SharedRx: every payload is delivered to H264Packet through one receive buffer that the next payload
	// overwrites (the usual receive loop); fragments H264Packet keeps for later must be its own copies
	SharedRx bool `json:"shared_rx,omitempty"`
}

// H264DecCase: units packetised by the independent encoder in a drawn legal way.
type H264DecUnit struct {
	N     NALSpec `json:"n"`
	Mode  string  `json:"mode"`  // single | stapa (aggregated with the following units of mode "stapa+") | fua
	Sizes []int   `json:"sizes"` // FU-A fragment sizes (sum = Len-1)
}

type H264DecCase struct {
	AVC   bool          `json:"avc"`
	Units []H264DecUnit `json:"units"`
}

var (
	subC10Pay = register("C10", "payloader", checkC10Pay)
	subC10Dec = register("C10", "decoder", checkC10Dec)
)

func checkC10Pay(r *run, c *H264PayCase) (CaseInfo, error) {
	var ci CaseInfo
	pl := &codecs.H264Payloader{DisableStapA: c.DisableStapA}
	dep := &codecs.H264Packet{IsAVC: c.AVC}
	var refDep h264rtp.Reasm
	mtu := int(c.MTU)
	if c.DisableStapA {
		ci.class("stap-a-disabled")
	}
	if c.AVC {
		ci.class("avc")
	}

	// expected units in order; pending parameter sets when STAP-A is enabled
	var want [][]byte
	var pendSPS, pendPPS []byte
	var got [][]byte
	var f14Dropped [][]byte     // pairs the known defect F14 would drop (STAP-A larger than the MTU)
	fitPairs, stapaSeen := 0, 0 // SPS/PPS pairs whose STAP-A fits the MTU; STAP-A payloads emitted
	var rx []byte
	if c.SharedRx {
		ci.class("one-receive-buffer")
	}
	var retained [][2][]byte // what H264Packet returned, kept as a receiver assembling a frame does (its inputs are never touched again)
	for ci2, call := range c.Calls {
		buf := call.buffer()
		orig := clone(buf)
		payloads := pl.Payload(c.MTU, buf)
		if !bytes.Equal(buf, orig) {
			return ci, failf("call %d: payloader modified its input", ci2)
		}
		for i := range call.Units {
			u := call.Units[i].nal()
			switch t := u[0] & 0x1F; {
			case t == 9 || t == 12:
				ci.class("aud-or-filler")
			case t == 7 && !c.DisableStapA:
				pendSPS = u
			case t == 8 && !c.DisableStapA:
				pendPPS = u
			default:
				if pendSPS != nil && pendPPS != nil {
					want = append(want, pendSPS, pendPPS)
					if 1+2+len(pendSPS)+2+len(pendPPS) <= mtu {
						fitPairs++
					}
					if 1+2+len(pendSPS)+2+len(pendPPS) == mtu {
						ci.class("stap-a-fills-the-mtu-exactly")
					}
					if 1+2+len(pendSPS)+2+len(pendPPS) > mtu {
						f14Dropped = append(f14Dropped, pendSPS, pendPPS)
						ci.class("stap-a-does-not-fit")
					}
					pendSPS, pendPPS = nil, nil
				}
				want = append(want, u)
			}
		}
		// shape of this call's payloads + reassembly + depacketizer agreement
		for pi, p := range payloads {
			what := fmt.Sprintf("call %d payload %d/%d (mtu %d) %s", ci2, pi, len(payloads), mtu, hx(p))
			if len(p) > mtu {
				return ci, failf("%s: %d bytes exceed the MTU", what, len(p))
			}
			pp, err := h264rtp.Parse(p)
			if err != nil {
				return ci, failf("%s: not a single NAL / STAP-A / FU-A payload: %v", what, err)
			}
			wasOpen := refDep.Open()
			units, err := refDep.Push(p)
			if err != nil {
				return ci, failf("%s: %v", what, err)
			}
			head := true
			switch pp.Kind {
			case "stapa":
				stapaSeen++
				ci.class("stap-a")
				if c.DisableStapA {
					return ci, failf("%s: STAP-A although it is disabled", what)
				}
				if len(pp.Units) != 2 || pp.Units[0][0]&0x1F != 7 || pp.Units[1][0]&0x1F != 8 {
					return ci, failf("%s: STAP-A does not hold exactly one SPS and one PPS", what)
				}
			case "fua":
				ci.class("fu-a")
				if pp.R {
					return ci, failf("%s: reserved bit set in the FU header", what)
				}
				if pp.S && pp.E {
					return ci, failf("%s: S and E on the same fragment (a unit must span at least two FU-As)", what)
				}
				if pp.S == wasOpen {
					return ci, failf("%s: S=%v while a train is open=%v", what, pp.S, wasOpen)
				}
				if len(pp.Fragment) == 0 {
					return ci, failf("%s: empty fragment", what)
				}
				head = pp.S
			}
			if dep.IsPartitionHead(p) != head || (&codecs.H264PartitionHeadChecker{}).IsPartitionHead(p) != head {
				return ci, failf("%s: IsPartitionHead=%v, want %v", what, dep.IsPartitionHead(p), head)
			}
			for _, u := range units {
				got = append(got, clone(u)) // the reference reassembler's units may point into p, which is recycled below
			}
			arg := clone(p)
			if c.SharedRx {
				if len(rx) < len(p) {
					rx = make([]byte, len(p)+64)
				}
				for k := range rx {
					rx[k] = 0xEE // what the previous payload left is gone
				}
				arg = rx[:copy(rx, p)]
			}
			out, err := dep.Unmarshal(arg)
			if err != nil {
				return ci, failf("%s: H264Packet rejects the payloader's output: %v", what, err)
			}
			if !bytes.Equal(arg, p) {
				return ci, failf("%s: H264Packet.Unmarshal modified the payload it was given: now %s", what, hx(arg))
			}
			if dep.IsPartitionHead(arg) != head {
				return ci, failf("%s: IsPartitionHead=%v after the payload was decoded, want %v", what, !head, head)
			}
			if c.SharedRx {
				out = clone(out) // judged as returned; the retained-output check below is about H264Packet's own buffers
			}
			exp := h264rtp.Frame(units, c.AVC)
			if !bytes.Equal(out, exp) {
				return ci, failf("%s: H264Packet returned %s, the reference depacketizer %s", what, hx(out), hx(exp))
			}
			if len(out) > 0 {
				retained = append(retained, [2][]byte{out, exp})
			}
		}
		if refDep.Open() {
			return ci, failf("call %d: the last FU-A train is not closed by an E fragment", ci2)
		}
		// the payloads of this call are sent and their buffers recycled by the caller: overwrite them (capacity
		// included); what later calls return must not depend on them
		for _, p := range payloads {
			for k, full := 0, p[:cap(p)]; k < len(full); k++ {
				full[k] ^= 0xFF
			}
		}
	}
	if pendSPS != nil || pendPPS != nil {
		ci.class("pair-pending-at-end")
	}
	for k, pair := range retained {
		if !bytes.Equal(pair[0], pair[1]) {
			return ci, failf("output %d of %d returned by H264Packet changed while later packets of the stream were decoded: now %s, was %s", k, len(retained), hx(pair[0]), hx(pair[1]))
		}
	}
	if !c.DisableStapA && stapaSeen != fitPairs && equalUnits(got, want) {
		return ci, failf("%d SPS/PPS pairs have an aggregate that fits the MTU %d, but %d STAP-A payloads were emitted: a pair that fits must arrive as one STAP-A", fitPairs, mtu, stapaSeen)
	}
	// FU-A trains must carry the unit's NRI/type: implied by byte-exact reassembly below.
	if !equalUnits(got, want) {
		if len(f14Dropped) > 0 && equalUnits(got, without(want, f14Dropped)) {
			if e := r.finding("F14-h264-oversized-stapa-dropped", "SPS+PPS whose STAP-A (%d bytes) exceeds the MTU %d are silently dropped instead of being sent individually", 1+2+len(f14Dropped[0])+2+len(f14Dropped[1]), mtu); e != nil {
				return ci, e
			}

			return ci, nil
		}

		return ci, failf("reassembled units differ from the input (mtu %d, stapA disabled %v):\n got:  %s\n want: %s", mtu, c.DisableStapA, unitList(got), unitList(want))
	}
	for _, k := range ci.Classes {
		if k == "fu-a" || k == "stap-a" {
			ci.Nontrivial = true
		}
	}
	if len(c.Calls) > 1 {
		ci.class("multi-call")
	}

	return ci, nil
}

func equalUnits(a, b [][]byte) bool {
	if len(a) != len(b) {
		return false
	}
	for i := range a {
		if !bytes.Equal(a[i], b[i]) {
			return false
		}
	}

	return true
}

// without removes the first occurrence of each unit of drop (in order) from list.
func without(list, drop [][]byte) [][]byte {
	var out [][]byte
	j := 0
	for _, u := range list {
		if j < len(drop) && bytes.Equal(u, drop[j]) {
			j++

			continue
		}
		out = append(out, u)
	}

	return out
}

func unitList(u [][]byte) string {
	s := ""
	for i, x := range u {
		if i > 0 {
			s += " "
		}
		if len(x) == 0 {
			s += "[empty]"

			continue
		}
		s += fmt.Sprintf("[t%d %dB %s]", x[0]&0x1F, len(x), hx(x[:mini(len(x), 6)]))
	}

	return s
}

func checkC10Dec(r *run, c *H264DecCase) (CaseInfo, error) {
	var ci CaseInfo
	dep := &codecs.H264Packet{IsAVC: c.AVC}
	var refDep h264rtp.Reasm
	var stream [][]byte
	for i := 0; i < len(c.Units); i++ {
		u := &c.Units[i]
		nal := u.N.nal()
		switch u.Mode {
		case "fua":
			ci.class("dec-fu-a")
			stream = append(stream, h264rtp.FUA(nal, u.Sizes)...)
		case "stapa":
			ci.class("dec-stap-a")
			group := [][]byte{nal}
			for i+1 < len(c.Units) && c.Units[i+1].Mode == "stapa+" {
				i++
				group = append(group, c.Units[i].N.nal())
			}
			stream = append(stream, h264rtp.STAPA(group))
		default:
			stream = append(stream, h264rtp.Single(nal))
		}
	}
	multi := 0
	for pi, p := range stream {
		units, err := refDep.Push(p)
		if err != nil {
			return ci, failf("harness bug: reference reassembler rejects reference stream: %v", err)
		}
		arg := clone(p)
		out, err := dep.Unmarshal(arg)
		if err != nil {
			return ci, failf("payload %d/%d %s of a well-formed RFC 6184 stream rejected: %v", pi, len(stream), hx(p), err)
		}
		if !bytes.Equal(arg, p) {
			return ci, failf("payload %d/%d %s: H264Packet.Unmarshal modified the payload it was given: now %s", pi, len(stream), hx(p), hx(arg))
		}
		if exp := h264rtp.Frame(units, c.AVC); !bytes.Equal(out, exp) {
			return ci, failf("payload %d/%d %s: H264Packet returned %s, want %s", pi, len(stream), hx(p), hx(out), hx(exp))
		}
		pp, _ := h264rtp.Parse(p)
		head := pp.Kind != "fua" || pp.S
		if len(p) >= 2 && dep.IsPartitionHead(p) != head {
			return ci, failf("payload %d/%d %s: IsPartitionHead=%v, want %v", pi, len(stream), hx(p), dep.IsPartitionHead(p), head)
		}
		if pp.Kind != "single" {
			multi++
		}
	}
	ci.Nontrivial = multi > 0

	return ci, nil
}

var h264Types = []uint8{1, 1, 1, 5, 5, 6, 7, 8, 9, 12, 2, 3, 4, 10, 11, 13, 14, 15, 16, 17, 18, 19, 20, 21, 22, 23}

func genNAL(t *rapid.T, mtu int, typ uint8) NALSpec {
	n := NALSpec{Type: typ, NRI: uint8(rapid.IntRange(0, 3).Draw(t, "nri")), Seed: rapid.Uint64().Draw(t, "nseed"),
		StartCode: rapid.SampledFrom([]int{3, 4}).Draw(t, "sc")}
	frag := mtu - 2
	if frag < 1 {
		frag = 1
	}
	sp := append([]int{2, 3, 4}, around(2, mtu, 1+frag, 1+2*frag, 1+3*frag)...)
	n.Len = biased(t, "nlen", 2, mini(4000, maxi(40, 5*mtu)), sp...)

	return n
}

func genH264PayCase(t *rapid.T) *H264PayCase {
	c := &H264PayCase{DisableStapA: rapid.IntRange(0, 2).Draw(t, "nostap") == 0, AVC: genBool(t, "avc"), SharedRx: genBool(t, "sharedrx")}
	c.MTU = uint16(biased(t, "mtu", 3, 1500, 3, 4, 5, 6, 7, 8, 9, 10, 16, 40, 100, 1188, 1200))
	if rapid.IntRange(0, 19).Draw(t, "hugemtu") == 0 {
		c.MTU = uint16(rapid.IntRange(1501, 65535).Draw(t, "mtuhuge"))
	}
	mtu := int(c.MTU)
	ncalls := rapid.IntRange(1, 4).Draw(t, "ncalls")
	var havePair bool
	var lastSPS, lastPPS NALSpec
	var pendingPPS *NALSpec // a PPS that must directly follow an SPS emitted at the end of the previous call
	afterPair := false      // a pair is followed by a unit that is not a parameter set (or by the end of the stream)
	for k := 0; k < ncalls; k++ {
		call := H264Call{LeadingZero: genBool(t, "leadzero"), Lead: rapid.SampledFrom([]int{0, 0, 0, 0, 1, 2}).Draw(t, "lead")}
		nu := rapid.IntRange(1, 5).Draw(t, "nunits")
		if pendingPPS != nil {
			call.Units = append(call.Units, *pendingPPS)
			pendingPPS = nil
			afterPair = true
		}
		for len(call.Units) < nu {
			typ := rapid.SampledFrom(h264Types).Draw(t, "type")
			if typ == 8 {
				typ = 7 // parameter sets only occur as adjacent SPS,PPS pairs
			}
			if typ == 7 && afterPair {
				typ = 5
			}
			if typ != 9 && typ != 12 {
				afterPair = false
			}
			if typ == 7 {
				afterPair = true
				sps := genNAL(t, mtu, 7)
				pps := genNAL(t, mtu, 8)
				if rapid.IntRange(0, 3).Draw(t, "smallps") != 0 {
					sps.Len = rapid.IntRange(2, 30).Draw(t, "spslen")
					pps.Len = rapid.IntRange(2, 12).Draw(t, "ppslen")
				}
				if havePair && rapid.IntRange(0, 2).Draw(t, "samepair") == 0 {
					// the very same parameter sets again (every key frame repeats them)
					sps, pps = lastSPS, lastPPS
					sps.StartCode, pps.StartCode = rapid.SampledFrom([]int{3, 4}).Draw(t, "sc2"), 3
				} else if mtu >= 10 && rapid.IntRange(0, 3).Draw(t, "pairatfit") == 0 {
					// the aggregate (1 + 2+len(SPS) + 2+len(PPS)) exactly at, one below or one above the MTU
					total := mtu - 5 + rapid.SampledFrom([]int{0, 0, -1, 1}).Draw(t, "pairfitdelta")
					pps.Len = mini(maxi(2, total/3), 200)
					if total-pps.Len >= 2 && total-pps.Len <= 4000 {
						sps.Len = total - pps.Len
					}
				}
				havePair, lastSPS, lastPPS = true, sps, pps
				call.Units = append(call.Units, sps)
				if len(call.Units) >= nu && k+1 < ncalls && genBool(t, "splitpair") {
					pendingPPS = &pps
				} else {
					call.Units = append(call.Units, pps)
				}

				continue
			}
			call.Units = append(call.Units, genNAL(t, mtu, typ))
		}
		if len(call.Units) == 1 && genBool(t, "bare") {
			call.Bare = true
		}
		c.Calls = append(c.Calls, call)
	}
	if rapid.IntRange(0, 59).Draw(t, "jumbo") == 0 {
		// one unit of 64 KiB or more (ordinary for HD key frames; sizes that do not fit 16 bits)
		c.MTU = uint16(rapid.SampledFrom([]int{1200, 1500, 9000, 40000, 65535}).Draw(t, "jumbomtu"))
		call := &c.Calls[rapid.IntRange(0, len(c.Calls)-1).Draw(t, "jumbocall")]
		u := &call.Units[rapid.IntRange(0, len(call.Units)-1).Draw(t, "jumbounit")]
		u.Len = rapid.SampledFrom([]int{65534, 65535, 65536, 65537, 65538, 65540, 70000, 131072, 131073}).Draw(t, "jumbolen")
	}
	if pendingPPS != nil {
		last := &c.Calls[len(c.Calls)-1]
		last.Units = append(last.Units, *pendingPPS)
		last.Bare = false
	}

	return c
}

func genH264DecCase(t *rapid.T) *H264DecCase {
	c := &H264DecCase{AVC: genBool(t, "avc")}
	nu := rapid.IntRange(1, 8).Draw(t, "nunits")
	for i := 0; i < nu; i++ {
		typ := rapid.SampledFrom(h264Types).Draw(t, "type")
		n := NALSpec{Type: typ, NRI: uint8(rapid.IntRange(0, 3).Draw(t, "nri")), Seed: rapid.Uint64().Draw(t, "nseed"), StartCode: 4}
		n.Len = biased(t, "nlen", 2, 300, 2, 3, 4, 5)
		if rapid.IntRange(0, 79).Draw(t, "bigunit") == 0 {
			n.Len = rapid.SampledFrom([]int{2000, 65533, 65534, 65535, 65536, 65537, 70000}).Draw(t, "biglen")
		}
		u := H264DecUnit{N: n, Mode: rapid.SampledFrom([]string{"single", "stapa", "fua", "fua"}).Draw(t, "mode")}
		if n.Len > 65535 && u.Mode == "stapa" {
			u.Mode = "fua" // a STAP-A size field is 16 bits
		}
		switch u.Mode {
		case "fua":
			body := n.Len - 1
			// split body into >= 2 fragments; 1-byte and (rarely) empty middle fragments included
			var sizes []int
			rest := body
			for rest > 0 {
				s := rapid.IntRange(0, rest).Draw(t, "fsz")
				if s == 0 && rapid.IntRange(0, 2).Draw(t, "allowempty") != 0 {
					s = 1 // RFC 6184 5.8: an FU payload MAY be empty, the first one included; keep those rarer
				}
				if s > rest {
					s = rest
				}
				sizes = append(sizes, s)
				rest -= s
			}
			if rapid.IntRange(0, 5).Draw(t, "emptyfirst") == 0 {
				sizes = append([]int{0}, sizes...)
			}
			if len(sizes) < 2 {
				if sizes[0] >= 2 {
					sizes = []int{sizes[0] - 1, 1}
				} else {
					sizes = []int{1, 0}
				}
			}
			u.Sizes = sizes
		case "stapa":
			c.Units = append(c.Units, u)
			extra := rapid.IntRange(0, 4).Draw(t, "stapextra")
			if rapid.IntRange(0, 19).Draw(t, "manystap") == 0 {
				extra = rapid.IntRange(5, 20).Draw(t, "stapextramany")
			}
			for k := 0; k < extra; k++ {
				n2 := NALSpec{Type: rapid.SampledFrom(h264Types).Draw(t, "type2"), NRI: uint8(rapid.IntRange(0, 3).Draw(t, "nri2")), Seed: rapid.Uint64().Draw(t, "nseed2"), StartCode: 4}
				n2.Len = biased(t, "nlen2", 2, 100, 2, 3)
				c.Units = append(c.Units, H264DecUnit{N: n2, Mode: "stapa+"})
			}

			continue
		}
		c.Units = append(c.Units, u)
	}

	return c
}

const ruleC10 = "payloader: 1-4 Payload calls on one H264Payloader, each an Annex-B buffer (3-/4-byte start codes, 0-3 zero bytes in front of the first one) or one bare unit; NAL types 1-23 weighted to 1,5,6,7,8,9,12, NRI 0-3, sizes 2 bytes to several MTUs biased to MTU+-2 and 1+k*(MTU-2)+-2 (one case in 60 holds a unit of 65534-131073 bytes, parameter sets included), bodies free of start-code emulation (a quarter with 00 00 03 sequences inside, one unit in four ending in 00 00 03) with a non-zero last byte; SPS/PPS only as adjacent pairs (possibly split across calls, a third of the later ones byte-identical to the previous pair); the payloads of a call are overwritten before the next call; MTU 3-1500 biased to 3-10; STAP-A on/off; AVC on/off. Oracle: independent RFC 6184 parser/reassembler on the output (single | STAP-A | FU-A shapes, S/E placement, >=2 fragments, R=0, no empty fragment, <= MTU, a pair whose aggregate fits the MTU as exactly one STAP-A (sizes biased to aggregate = MTU-1, MTU, MTU+1) and individually otherwise, IsPartitionHead on first payloads only, byte-exact units in order minus AUD/filler) and H264Packet output = reference depacketizer output per payload (payloads delivered as private copies or, half of the cases, through one receive buffer that is wiped before each delivery), the payload left unmodified, every output kept and compared again after the whole stream was decoded. decoder: streams from the independent encoder (single, STAP-A of 1-5 units, FU-A with arbitrary fragment sizes incl. 1-byte and empty ones, the start fragment included). Non-trivial = stream with an FU-A train or a STAP-A; distinct = FNV-64 of the JSON case"

func TestC10(t *testing.T) {
	r := begin(t, "C10", "exploration", ruleC10)
	defer r.finish()
	subC10Pay.rapidRun(r, n(12000, 700000), genH264PayCase)
	subC10Dec.rapidRun(r, n(10000, 450000), genH264DecCase)
}
