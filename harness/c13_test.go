package harness

// C13 — AV1 packetization is lossless and obeys the AV1 RTP aggregation rules.

import (
	"bytes"
	"fmt"
	"testing"

	"github.com/pion/rtp/codecs"
	"github.com/pion/rtp/codecs/av1/frame"
	"github.com/pion/rtp/codecs/av1/obu"
	pkgframe "github.com/pion/rtp/pkg/frame"
	pkgobu "github.com/pion/rtp/pkg/obu"
	"pgregory.net/rapid"

	"verifharness/ref/av1rtp"
	"verifharness/ref/leb128"
)

type OBUSpec struct {
	Type   uint8  `json:"type"`
	HasExt bool   `json:"has_ext"`
	TID    uint8  `json:"tid"`
	SID    uint8  `json:"sid"`
	ExtRsv uint8  `json:"ext_rsv"`
	Rsv1   bool   `json:"rsv1"`
	Size   int    `json:"size"` // payload bytes
	Seed   uint64 `json:"seed"`
}

type AV1Case struct {
	MTU         uint16    `json:"mtu"`
	OBUs        []OBUSpec `json:"obus"`
	LastNoSize  bool      `json:"last_no_size"`        // the last OBU omits its size field
	NonMinimal  bool      `json:"non_minimal"`         // size fields use a non-minimal LEB128 (one extra group)
	UsePkgAlias bool      `json:"use_pkg_alias"`       // deprecated path through pkg/frame
	SharedRx    bool      `json:"shared_rx,omitempty"` // payloads reach the depacketizers through one receive buffer, wiped before each delivery
}

var (
	subC13    = register("C13", "av1", checkC13)
	subC13Leb = register("C13", "leb128", checkC13Leb)
	subC13Hdr = register("C13", "obuheader", checkC13Hdr)
)

func (o *OBUSpec) hdr(hasSize bool) av1rtp.OBUHdr {
	return av1rtp.OBUHdr{Type: o.Type, HasExt: o.HasExt, HasSize: hasSize, Rsv1: o.Rsv1, TID: o.TID, SID: o.SID, ExtRsv: o.ExtRsv}
}

func (c *AV1Case) input() []byte {
	var out []byte
	for i := range c.OBUs {
		o := &c.OBUs[i]
		hasSize := !(c.LastNoSize && i == len(c.OBUs)-1)
		out = append(out, o.hdr(hasSize).Bytes()...)
		if hasSize {
			if c.NonMinimal {
				out = append(out, leb128.EncodeN(uint64(o.Size), leb128.Size(uint64(o.Size))+1)...)
			} else {
				out = append(out, leb128.Encode(uint64(o.Size))...)
			}
		}
		out = append(out, expand(o.Seed, 0, o.Size)...)
	}

	return out
}

func obuList(l [][]byte) string {
	s := ""
	for i, o := range l {
		if i > 0 {
			s += " "
		}
		s += fmt.Sprintf("[%dB %s]", len(o), hx(o[:mini(len(o), 4)]))
	}

	return s
}

func checkC13(r *run, c *AV1Case) (CaseInfo, error) {
	var ci CaseInfo
	mtu := int(c.MTU)
	in := c.input()
	orig := clone(in)
	pl := &codecs.AV1Payloader{}
	payloads := pl.Payload(c.MTU, in)
	if !bytes.Equal(in, orig) {
		return ci, failf("payloader modified its input")
	}
	if c.SharedRx {
		// a sender queues this frame's packets and packetises the next frame with the same payloader before they
		// are sent: the queued packets are the caller's and must stay as they are (checked through everything below)
		next := *c
		next.OBUs = append([]OBUSpec{}, c.OBUs...)
		for i := range next.OBUs {
			next.OBUs[i].Seed ^= 0x5555AAAA5555AAAA
		}
		queued := deepCopy(payloads)
		_ = pl.Payload(c.MTU, next.input())
		if !sameFrags(payloads, queued) {
			return ci, failf("packets returned for one frame changed when the same AV1Payloader packetised the next frame (mtu %d, %d packets)", mtu, len(payloads))
		}
		ci.class("next-frame-packetised-before-use")
	}
	// expected OBUs as transmitted (size flag cleared) and as the depacketizer returns them
	var wantTx, wantDep [][]byte
	layers := map[[2]uint8]bool{}
	for i := range c.OBUs {
		o := &c.OBUs[i]
		if o.Type == 2 || o.Type == 8 {
			ci.class("temporal-delimiter-or-tile-list")

			continue
		}
		body := expand(o.Seed, 0, o.Size)
		wantTx = append(wantTx, append(o.hdr(false).Bytes(), body...))
		d := append(o.hdr(true).Bytes(), leb128.Encode(uint64(o.Size))...)
		wantDep = append(wantDep, append(d, body...))
		if o.HasExt {
			layers[[2]uint8{o.TID, o.SID}] = true
		}
	}
	if len(layers) >= 2 {
		ci.class(">=2-layer-ids")
	}
	if len(wantTx) == 0 {
		if len(payloads) != 0 {
			return ci, failf("input holds only temporal delimiters / tile lists but %d packets were produced", len(payloads))
		}

		return ci, nil
	}
	if len(payloads) == 0 {
		return ci, failf("no packets for %d OBUs (mtu %d)", len(wantTx), mtu)
	}

	var re av1rtp.Reasm
	var got [][]byte
	var dep codecs.AV1Depacketizer
	var rx []byte
	if c.SharedRx {
		ci.class("one-receive-buffer")
	}
	var depOut []byte
	var old codecs.AV1Packet
	var asm frame.AV1
	var asmAlias pkgframe.AV1
	var gotOld [][]byte
	// which OBUs (by index in start order) touch which packet
	var pktOBUs [][]int
	started := 0
	crossing, maxElems, lebEdge := false, 0, false
	for pi, p := range payloads {
		what := lazy(func() string { return fmt.Sprintf("packet %d/%d (mtu %d) %s", pi, len(payloads), mtu, hx(p)) })
		if len(p) > mtu {
			return ci, failf("%s: %d bytes exceed the MTU", what, len(p))
		}
		pk, err := av1rtp.ParsePacket(p)
		if err != nil {
			return ci, failf("%s: malformed aggregation: %v", what, err)
		}
		if pi == 0 && pk.Z {
			return ci, failf("%s: Z set on the first packet", what)
		}
		if pi == len(payloads)-1 && pk.Y {
			return ci, failf("%s: Y set on the last packet", what)
		}
		if len(pk.Elements) > maxElems {
			maxElems = len(pk.Elements)
		}
		var touching []int
		for ei, el := range pk.Elements {
			if len(el) == 0 {
				return ci, failf("%s: element %d is empty", what, ei)
			}
			if l := len(el); l == 127 || l == 128 || l == 16383 || l == 16384 {
				lebEdge = true
			}
			if ei == 0 && pk.Z {
				touching = append(touching, started-1)

				continue
			}
			if el[0]&0x02 != 0 {
				return ci, failf("%s: element %d starts an OBU whose has_size_field is set", what, ei)
			}
			if el[0]&0x80 != 0 {
				return ci, failf("%s: element %d starts with the forbidden bit set", what, ei)
			}
			touching = append(touching, started)
			started++
		}
		pktOBUs = append(pktOBUs, touching)
		if pk.Y {
			crossing = true
		}
		units, err := re.Push(pk)
		if err != nil {
			return ci, failf("%s: %v", what, err)
		}
		got = append(got, units...)

		// AV1Depacketizer on the same stream
		deliver := func() []byte {
			if !c.SharedRx {
				return clone(p)
			}
			if len(rx) < len(p) {
				rx = make([]byte, len(p)+64)
			}
			for k := range rx {
				rx[k] = 0xEE
			}

			return rx[:copy(rx, p)]
		}
		out, err := dep.Unmarshal(deliver())
		if err != nil {
			return ci, failf("%s: AV1Depacketizer rejects the payloader's output: %v", what, err)
		}
		depOut = append(depOut, out...)
		if dep.Z != pk.Z || dep.Y != pk.Y || dep.N != pk.N {
			return ci, failf("%s: AV1Depacketizer Z/Y/N %v/%v/%v, header says %v/%v/%v", what, dep.Z, dep.Y, dep.N, pk.Z, pk.Y, pk.N)
		}
		if dep.IsPartitionHead(p) != !pk.Z {
			return ci, failf("%s: AV1Depacketizer.IsPartitionHead=%v with Z=%v", what, dep.IsPartitionHead(p), pk.Z)
		}
		// deprecated AV1Packet (fresh per packet) + frame assembler
		old = codecs.AV1Packet{}
		if _, err := old.Unmarshal(deliver()); err != nil {
			return ci, failf("%s: AV1Packet rejects the payloader's output: %v", what, err)
		}
		var obus [][]byte
		if c.UsePkgAlias {
			obus, err = asmAlias.ReadFrames(&old)
		} else {
			obus, err = asm.ReadFrames(&old)
		}
		if err != nil {
			return ci, failf("%s: frame.AV1.ReadFrames: %v", what, err)
		}
		for _, o := range obus {
			gotOld = append(gotOld, clone(o))
		}
	}
	if re.Open() {
		return ci, failf("the last packet leaves an OBU fragment open")
	}
	if !equalUnits(got, wantTx) {
		return ci, failf("reassembled OBUs differ from the input (mtu %d):\n got:  %s\n want: %s", mtu, obuList(got), obuList(wantTx))
	}
	for pi, touching := range pktOBUs {
		var first *[2]uint8
		for _, oi := range touching {
			if oi < 0 || oi >= len(got) {
				return ci, failf("packet %d refers to OBU %d of %d", pi, oi, len(got))
			}
			h, err := av1rtp.ParseOBUHdr(got[oi])
			if err != nil || !h.HasExt {
				continue
			}
			l := [2]uint8{h.TID, h.SID}
			if first == nil {
				first = &l
			} else if *first != l {
				if e := r.finding("F16F17-av1-layers-share-packet", "packet %d/%d (mtu %d) %s: OBUs with temporal/spatial ids %v and %v share a packet", pi, len(payloads), mtu, hx(payloads[pi]), *first, l); e != nil {
					return ci, e
				}
			}
		}
	}
	if want := bytes.Join(wantDep, nil); !bytes.Equal(depOut, want) {
		return ci, failf("AV1Depacketizer output (%d bytes) differs from the input OBUs with size fields (%d bytes) (mtu %d)", len(depOut), len(want), mtu)
	}
	if !equalUnits(gotOld, wantTx) {
		return ci, failf("AV1Packet + frame.AV1 reassembly differs from the input (mtu %d):\n got:  %s\n want: %s", mtu, obuList(gotOld), obuList(wantTx))
	}
	if crossing {
		ci.class("fragment-crosses-packets")
	}
	if maxElems >= 3 {
		ci.class(">=3-elements-in-a-packet")
	}
	if maxElems >= 4 {
		ci.class("W=0-packet")
	}
	if lebEdge {
		ci.class("element-length-at-leb128-boundary")
	}
	ci.Nontrivial = (len(wantTx) >= 2 && crossing) || maxElems >= 3 || len(layers) >= 2

	return ci, nil
}

// LebCase: one 32-bit value (and a non-minimal encoding length for the reader).
type LebCase struct {
	V     uint32 `json:"v"`
	Extra int    `json:"extra"` // extra zero groups appended for the reader check (0-2)
}

func checkC13Leb(r *run, c *LebCase) (CaseInfo, error) {
	var ci CaseInfo
	ci.Nontrivial = true
	enc := obu.WriteToLeb128(uint(c.V))
	want := leb128.Encode(uint64(c.V))
	if !bytes.Equal(enc, want) {
		return ci, failf("WriteToLeb128(%d) = %s, want %s", c.V, hx(enc), hx(want))
	}
	v, n, err := obu.ReadLeb128(append(clone(enc), 0xAA, 0xBB))
	if err != nil || v != uint(c.V) || int(n) != len(enc) {
		return ci, failf("ReadLeb128(WriteToLeb128(%d)) = (%d,%d,%v), want (%d,%d,nil)", c.V, v, n, err, c.V, len(enc))
	}
	v2, n2, err := pkgobu.ReadLeb128(clone(enc))
	if err != nil || v2 != uint(c.V) || int(n2) != len(enc) {
		return ci, failf("pkg/obu.ReadLeb128: (%d,%d,%v)", v2, n2, err)
	}
	if c.Extra > 0 && len(enc)+c.Extra <= 8 {
		nm := leb128.EncodeN(uint64(c.V), len(enc)+c.Extra)
		v, n, err := obu.ReadLeb128(nm)
		if err != nil || v != uint(c.V) || int(n) != len(nm) {
			return ci, failf("ReadLeb128(%s) (non-minimal encoding of %d) = (%d,%d,%v)", hx(nm), c.V, v, n, err)
		}
		ci.class("non-minimal")
	}
	// every proper prefix is unterminated
	for k := 0; k < len(enc); k++ {
		if _, _, err := obu.ReadLeb128(enc[:k]); err == nil {
			return ci, failf("ReadLeb128 accepts the %d-byte prefix of %s", k, hx(enc))
		}
	}
	// EncodeLEB128 is the big-endian integer reading of the same bytes
	var asInt uint
	for _, b := range enc {
		asInt = asInt<<8 | uint(b)
	}
	if got := obu.EncodeLEB128(uint(c.V)); got != asInt || pkgobu.EncodeLEB128(uint(c.V)) != asInt {
		return ci, failf("EncodeLEB128(%d) = %#x, the encoded bytes read as %#x", c.V, got, asInt)
	}
	// the caller owns the returned bytes (e.g. sets continuation bits to pad a size field, or appends to them)
	for i, full := 0, enc[:cap(enc)]; i < len(full); i++ {
		full[i] ^= 0xFF
	}
	if again := obu.WriteToLeb128(uint(c.V)); !bytes.Equal(again, want) {
		return ci, failf("WriteToLeb128(%d) = %s after the caller overwrote an earlier result, want %s", c.V, hx(again), hx(want))
	}

	return ci, nil
}

// HdrCase: two arbitrary bytes interpreted as an OBU header.
type HdrCase struct {
	B0 uint8 `json:"b0"`
	B1 uint8 `json:"b1"`
}

func checkC13Hdr(r *run, c *HdrCase) (CaseInfo, error) {
	var ci CaseInfo
	ci.Nontrivial = true
	in := []byte{c.B0, c.B1}
	ref, _ := av1rtp.ParseOBUHdr(in)
	h, err := obu.ParseOBUHeader(in)
	if ref.Forbidden {
		if err == nil {
			return ci, failf("ParseOBUHeader(%s) accepts a header with the forbidden bit", hx(in))
		}

		return ci, nil
	}
	if err != nil {
		return ci, failf("ParseOBUHeader(%s): %v", hx(in), err)
	}
	if uint8(h.Type) != ref.Type || h.HasSizeField != ref.HasSize || h.Reserved1Bit != ref.Rsv1 || (h.ExtensionHeader != nil) != ref.HasExt || h.Size() != ref.Len {
		return ci, failf("ParseOBUHeader(%s) = %+v, want %+v", hx(in), *h, ref)
	}
	if ref.HasExt {
		e := h.ExtensionHeader
		if e.TemporalID != ref.TID || e.SpatialID != ref.SID || e.Reserved3Bits != ref.ExtRsv {
			return ci, failf("ParseOBUHeader(%s) extension %+v, want tid %d sid %d rsv %d", hx(in), *e, ref.TID, ref.SID, ref.ExtRsv)
		}
	}
	if m := h.Marshal(); !bytes.Equal(m, in[:ref.Len]) {
		return ci, failf("Marshal(Parse(%s)) = %s", hx(in[:ref.Len]), hx(m))
	}
	// Parse(Marshal(h)) = h for the header built from fields
	h2 := obu.Header{Type: obu.Type(ref.Type), HasSizeField: ref.HasSize, Reserved1Bit: ref.Rsv1}
	if ref.HasExt {
		h2.ExtensionHeader = &obu.ExtensionHeader{TemporalID: ref.TID, SpatialID: ref.SID, Reserved3Bits: ref.ExtRsv}
	}
	back, err := obu.ParseOBUHeader(h2.Marshal())
	if err != nil || back.Type != h2.Type || back.HasSizeField != h2.HasSizeField || back.Reserved1Bit != h2.Reserved1Bit || (back.ExtensionHeader != nil) != ref.HasExt ||
		(ref.HasExt && *back.ExtensionHeader != *h2.ExtensionHeader) {
		return ci, failf("Parse(Marshal(%+v)) = %+v (%v)", h2, back, err)
	}
	if ref.HasExt && len(in) >= 2 {
		if _, err := obu.ParseOBUHeader(in[:1]); err == nil {
			return ci, failf("ParseOBUHeader accepts %s without the announced extension byte", hx(in[:1]))
		}
	}
	// the caller owns a parsed header: rewriting its fields (a forwarder changing layer ids) must not reach later parses
	if ref.HasExt {
		keep := *h.ExtensionHeader
		h.ExtensionHeader.TemporalID ^= 7
		h.ExtensionHeader.SpatialID ^= 3
		h.ExtensionHeader.Reserved3Bits ^= 7
		again, err := obu.ParseOBUHeader(in)
		if err != nil || again.ExtensionHeader == nil || *again.ExtensionHeader != keep {
			return ci, failf("ParseOBUHeader(%s) after the caller rewrote the fields of an earlier result for the same bytes: %+v (%v), want %+v", hx(in), again.ExtensionHeader, err, keep)
		}
		*h.ExtensionHeader = keep
	}
	// OBU.Marshal composes header, size and payload
	o := obu.OBU{Header: *h, Payload: []byte{c.B1, c.B0, 7}}
	exp := clone(in[:ref.Len])
	if ref.HasSize {
		exp = append(exp, 3)
	}
	exp = append(exp, c.B1, c.B0, 7)
	if got := o.Marshal(); !bytes.Equal(got, exp) {
		return ci, failf("OBU.Marshal = %s, want %s", hx(got), hx(exp))
	}

	return ci, nil
}

var av1Types = []uint8{1, 2, 3, 4, 5, 6, 6, 6, 7, 8, 15, 0, 9, 10, 11, 12, 13, 14, 3, 1}

// genAV1EdgeCase aims at the length-field arithmetic of the payloader: k small OBUs
// fill the start of a packet (with >= 3 of them the packet is in W=0 mode and every
// element needs a length prefix), then a large OBU arrives while the free space is at
// or next to a LEB128 size boundary (127/128, 16383/16384). The MTU is derived from
// the drawn OBUs so that the boundary is hit exactly.
func genAV1EdgeCase(t *rapid.T) *AV1Case {
	c := &AV1Case{LastNoSize: genBool(t, "lastnosize"), UsePkgAlias: genBool(t, "alias"), SharedRx: genBool(t, "sharedrx")}
	k := rapid.IntRange(0, 5).Draw(t, "nsmall")
	prefix := 0
	ext := genBool(t, "ext")
	for i := 0; i < k; i++ {
		o := OBUSpec{Type: rapid.SampledFrom([]uint8{3, 4, 5, 6, 7, 15}).Draw(t, "type"), Seed: rapid.Uint64().Draw(t, "seed"), HasExt: ext, TID: 1, SID: 1}
		o.Size = rapid.IntRange(0, 3).Draw(t, "smallsize")
		l := 1 + o.Size
		if ext {
			l++
		}
		prefix += 1 + l // one-byte length prefix + element
		c.OBUs = append(c.OBUs, o)
	}
	target := rapid.SampledFrom([]int{126, 127, 128, 129, 130, 16382, 16383, 16384, 16385, 16386}).Draw(t, "freespace")
	mtu := 1 + prefix + target
	if mtu > 65535 {
		mtu = 65535
	}
	c.MTU = uint16(mtu)
	big := OBUSpec{Type: rapid.SampledFrom([]uint8{3, 4, 6}).Draw(t, "bigtype"), Seed: rapid.Uint64().Draw(t, "bigseed"), HasExt: ext, TID: 1, SID: 1}
	hl := 1
	if ext {
		hl = 2
	}
	big.Size = target - hl + rapid.SampledFrom([]int{-3, -2, -1, 0, 1, 2, 3, 130, 4000}).Draw(t, "bigdelta")
	if big.Size < 0 {
		big.Size = 0
	}
	c.OBUs = append(c.OBUs, big)
	if genBool(t, "trailing") {
		c.OBUs = append(c.OBUs, OBUSpec{Type: 6, Seed: 7, Size: rapid.IntRange(0, 300).Draw(t, "trailsize"), HasExt: ext, TID: 1, SID: 1})
	}

	return c
}

func genAV1Case(t *rapid.T) *AV1Case {
	if rapid.IntRange(0, 5).Draw(t, "edgemode") == 0 {
		return genAV1EdgeCase(t)
	}
	c := &AV1Case{LastNoSize: rapid.IntRange(0, 3).Draw(t, "lastnosize") == 0, NonMinimal: rapid.IntRange(0, 9).Draw(t, "nonminimal") == 0, UsePkgAlias: genBool(t, "alias"), SharedRx: genBool(t, "sharedrx")}
	c.MTU = uint16(biased(t, "mtu", 2, 65535, append([]int{2, 3, 4, 5, 6, 7, 8, 9, 10, 16, 20, 1200}, around(3, 130, 16385)...)...))
	mtu := int(c.MTU)
	nobu := rapid.IntRange(1, 8).Draw(t, "nobus")
	budget := 600 * (mtu - 1) // bounds a case to about 600 packets (the library's reassemblers copy the growing fragment per packet)
	// a small per-case alphabet of layer ids (drawn from ALL 8 x 4 ids) makes equal and
	// different ids both likely while every pair of ids can occur
	nl := rapid.IntRange(1, 3).Draw(t, "nlayers")
	var layerAlphabet [][2]uint8
	for i := 0; i < nl; i++ {
		layerAlphabet = append(layerAlphabet, [2]uint8{uint8(rapid.IntRange(0, 7).Draw(t, "tid")), uint8(rapid.IntRange(0, 3).Draw(t, "sid"))})
	}
	for i := 0; i < nobu; i++ {
		o := OBUSpec{Type: rapid.SampledFrom(av1Types).Draw(t, "type"), Rsv1: rapid.IntRange(0, 7).Draw(t, "rsv1") == 0, Seed: rapid.Uint64().Draw(t, "seed")}
		if rapid.IntRange(0, 2).Draw(t, "hasext") != 0 {
			o.HasExt = true
			l := layerAlphabet[rapid.IntRange(0, nl-1).Draw(t, "layer")]
			o.TID, o.SID = l[0], l[1]
			o.ExtRsv = uint8(rapid.SampledFrom([]int{0, 0, 0, 7}).Draw(t, "extrsv"))
		}
		sp := append([]int{0, 1, 2}, around(3, mtu-1, 2*(mtu-1))...)
		sp = append(sp, around(4, 127, 16383)...)
		hi := 700
		if rapid.IntRange(0, 5).Draw(t, "big") == 0 {
			hi = 17000
		}
		o.Size = biased(t, "size", 0, hi, sp...)
		if o.Size > budget {
			o.Size = budget
		}
		budget -= o.Size
		c.OBUs = append(c.OBUs, o)
	}
	if rapid.IntRange(0, 79).Draw(t, "jumbo") == 0 {
		// one OBU of 64 KiB or more (sizes that no longer fit 16 bits), large MTU
		c.MTU = uint16(rapid.SampledFrom([]int{1200, 4000, 16000, 65535}).Draw(t, "jumbomtu"))
		k := rapid.IntRange(0, len(c.OBUs)-1).Draw(t, "jumbowhich")
		c.OBUs[k].Size = rapid.SampledFrom([]int{65533, 65534, 65535, 65536, 65537, 65540, 70000, 131070, 131073}).Draw(t, "jumbosize")
		if c.OBUs[k].Type == 2 || c.OBUs[k].Type == 8 {
			c.OBUs[k].Type = 6
		}
	}

	return c
}

const ruleC13 = "rapid draws 1-8 OBUs (all 16 types weighted to sequence header/frame/temporal delimiter/tile list, optional extension byte with ids from a per-case alphabet of 1-3 (temporal 0-7, spatial 0-3) pairs so that equal and different layer ids both occur and every pair can, reserved bits free, payload sizes {0,1,2, MTU-1+-3, 2(MTU-1)+-3, 127+-4, 16383+-4, 0-700, sometimes up to 17000, one case in 80 with an OBU of 65533-131073 bytes}), size fields present on all or omitted on the last, optionally non-minimal LEB128 sizes, MTU 2-65535 biased to 2-20, 127-133, 16382-16388; at most about 600 packets per case; one case in six is an 'edge' case: 0-5 small OBUs followed by a large one, with the MTU derived so that the free space in front of the large OBU is 126-130 or 16382-16386 bytes (the LEB128 length-field boundaries). Oracle: independent AV1 RTP parser on every payload (<= MTU, W/length-prefix rule, Z = previous Y, first Z=0, last Y=0, no empty element, has_size_field cleared, one (tid,sid) per packet), byte-exact reassembly, AV1Depacketizer output = OBUs with size fields, AV1Packet + frame.AV1 (directly or through pkg/frame) = OBUs without size field; half of the cases deliver the payloads through one receive buffer wiped before each delivery, and packetise a next frame with the same payloader before the first frame's packets are looked at. leb128: WriteToLeb128/ReadLeb128/EncodeLEB128 against an independent codec (quick: +-3 around every 7-bit boundary and drawn values; thorough: all 2^32 values), non-minimal encodings and truncations for the reader, and a second write after the caller overwrote the first result. obuheader: all 2^16 byte pairs. Non-trivial = >=2 OBUs with a fragment crossing packets, >=3 elements in one packet, or >=2 distinct layer ids; every leb128/header value; distinct = FNV-64 of the JSON case"

func TestC13(t *testing.T) {
	r := begin(t, "C13", "exploration", ruleC13)
	defer r.finish()
	subC13.rapidRun(r, n(12000, 250000), genAV1Case)

	// OBU header: all 2^16 byte pairs
	{
		var total int64
		ok := true
		for v := 0; v < 1<<16 && ok; v++ {
			if !mine(v) {
				continue
			}
			c := &HdrCase{B0: uint8(v >> 8), B1: uint8(v)}
			if _, err := subC13Hdr.exec(r, c); err != nil {
				subC13Hdr.one(r, c)
				ok = false
			}
			total++
		}
		if !ok {
			return
		}
		r.col.Bulk("obuheader", total, total, map[string]int64{"enum:obu-header-pairs": total})
		r.col.Exhaustive("C13 all 2^16 OBU header byte pairs (parse, marshal, re-parse after the caller rewrote the fields of the first result)", envShards == 1)
	}
	// LEB128
	var total int64
	check := func(v uint32, extra int) bool {
		c := &LebCase{V: v, Extra: extra}
		if _, err := subC13Leb.exec(r, c); err != nil {
			subC13Leb.one(r, c)

			return false
		}
		total++

		return true
	}
	for _, b := range []uint64{0, 1 << 7, 1 << 14, 1 << 21, 1 << 28, 1 << 32} {
		for d := -3; d <= 3; d++ {
			v := int64(b) + int64(d)
			if v < 0 || v > 0xFFFFFFFF {
				continue
			}
			for extra := 0; extra <= 2; extra++ {
				if !check(uint32(v), extra) {
					return
				}
			}
		}
	}
	if thorough() {
		// all 2^32 values, partitioned across shards by the high bits
		for hi := 0; hi < 1<<12; hi++ {
			if !mine(hi) {
				continue
			}
			base := uint32(hi) << 20
			for lo := uint32(0); lo < 1<<20; lo++ {
				v := base | lo
				enc := obu.WriteToLeb128(uint(v))
				got, nn, err := obu.ReadLeb128(enc)
				if err != nil || got != uint(v) || int(nn) != len(enc) || len(enc) != leb128.Size(uint64(v)) {
					check(v, 0)

					return
				}
				total++
			}
		}
		r.col.Exhaustive("C13 LEB128 write/read inverse on all 2^32 values", envShards == 1)
	}
	r.col.Bulk("leb128-enum", total, total, map[string]int64{"enum:leb128-values": total})
	subC13Leb.rapidRun(r, n(40000, 200000), func(t *rapid.T) *LebCase {
		return &LebCase{V: genU32(t, "v"), Extra: rapid.IntRange(0, 2).Draw(t, "extra")}
	})
}
