package harness

// C06 — Packetizer emits a valid, MTU-bounded, correctly numbered packet train.

import (
	"bytes"
	"fmt"
	"testing"
	"time"

	"github.com/pion/rtp"
	"github.com/pion/rtp/codecs"
	"pgregory.net/rapid"

	"verifharness/ref/ntp"
)

type PktzOp struct {
	Kind       string `json:"kind"` // packetize | skip | padding
	PayloadLen int    `json:"payload_len"`
	Seed       uint64 `json:"seed"`
	Samples    uint32 `json:"samples"`
	N          uint32 `json:"n"`
	ClockNs    int64  `json:"clock_ns"`
	StubFrags  []int  `json:"stub_frags,omitempty"` // per-mille of the mtu handed to the stub payloader
	// Steer: when non-zero (and the first timestamp has been observed) the samples /
	// skipped samples of this op are chosen at run time so that the NEXT timestamp is
	// exactly Steer-2 (1 -> 0xFFFFFFFF, 2 -> 0, 3 -> 1): the initial timestamp is random
	// and cannot be set, so the boundary values are reached adaptively.
	Steer int `json:"steer,omitempty"`
}

type PktzCase struct {
	MTU         uint16   `json:"mtu"`
	PT          uint8    `json:"pt"`
	SSRC        uint32   `json:"ssrc"`
	SeqMode     string   `json:"seq_mode"` // fixed | random
	SeqStart    uint16   `json:"seq_start"`
	AbsSendTime int      `json:"abs_send_time"` // 0 = off, 1..14 = extension id
	Payloader   string   `json:"payloader"`
	Ops         []PktzOp `json:"ops"`
	ClockZone   int      `json:"clock_zone_s,omitempty"` // the injected clock returns times in a fixed zone this many seconds east of UTC
	// RealClock: no clock is injected - the packetizer uses its default one; the abs-send-time value must lie between
	// the instants the harness reads right before and right after the Packetize call (a bracket, not a timeout)
	RealClock bool `json:"real_clock,omitempty"`
}

var subC06 = register("C06", "train", checkC06)

// appSeq is a Sequencer supplied by the application (the interface is public): a plain counter
// that also counts how often it was asked.
type appSeq struct {
	next  uint16
	calls int
	roll  uint64
}

func (s *appSeq) NextSequenceNumber() uint16 {
	v := s.next
	s.next++
	s.calls++
	if s.next == 0 {
		s.roll++
	}

	return v
}

func (s *appSeq) RollOverCount() uint64 { return s.roll }

// spy wraps a payloader and records what it was given and what it returned.
type spy struct {
	inner rtp.Payloader
	mtu   uint16
	frags [][]byte
	calls int
}

func (s *spy) Payload(mtu uint16, payload []byte) [][]byte {
	s.calls++
	s.mtu = mtu
	out := s.inner.Payload(mtu, payload)
	s.frags = make([][]byte, len(out))
	for i, f := range out {
		s.frags[i] = clone(f)
	}

	return out
}

// stub returns scripted fragments, each clamped to the mtu it is handed.
type stub struct{ frags []int }

func (s *stub) Payload(mtu uint16, payload []byte) [][]byte {
	var out [][]byte
	for i, pm := range s.frags {
		if pm <= 0 {
			// a fragment without bytes: 0 = empty, -1 = nil (a packet with an empty payload is a legal RTP packet)
			if pm < 0 {
				out = append(out, nil)
			} else {
				out = append(out, []byte{})
			}

			continue
		}
		l := int(mtu) * pm / 1000
		if l < 1 {
			l = 1
		}
		if l > int(mtu) {
			l = int(mtu)
		}
		f := make([]byte, l)
		for j := range f {
			f[j] = byte(i*31 + j)
		}
		out = append(out, f)
	}

	return out
}

func makePayloader(name string) rtp.Payloader {
	switch name {
	case "g711":
		return &codecs.G711Payloader{}
	case "g722":
		return &codecs.G722Payloader{}
	case "opus":
		return &codecs.OpusPayloader{}
	case "vp8":
		return &codecs.VP8Payloader{}
	case "vp8pid":
		return &codecs.VP8Payloader{EnablePictureID: true}
	case "vp9flex":
		return &codecs.VP9Payloader{FlexibleMode: true, InitialPictureIDFn: func() uint16 { return 100 }}
	case "h264":
		return &codecs.H264Payloader{}
	case "h264nostap":
		return &codecs.H264Payloader{DisableStapA: true}
	case "h265":
		return &codecs.H265Payloader{}
	case "h265donl":
		return &codecs.H265Payloader{AddDONL: true}
	case "vp9nonflex":
		return &codecs.VP9Payloader{InitialPictureIDFn: func() uint16 { return 32760 }}
	case "av1":
		return &codecs.AV1Payloader{}
	default:
		return &stub{}
	}
}

func checkC06(r *run, c *PktzCase) (CaseInfo, error) {
	var ci CaseInfo
	ci.class("payloader:" + c.Payloader)
	if c.AbsSendTime != 0 {
		ci.class("abs-send-time")
	}
	inner := makePayloader(c.Payloader)
	sp := &spy{inner: inner}
	var seq rtp.Sequencer
	var app *appSeq
	if c.SeqMode == "fixed" {
		seq = rtp.NewFixedSequencer(c.SeqStart)
	} else if c.SeqMode == "app" {
		app = &appSeq{next: c.SeqStart}
		seq = app
		ci.class("application-supplied-sequencer")
	} else {
		seq = rtp.NewRandomSequencer()
	}
	pk := rtp.NewPacketizer(c.MTU, c.PT, c.SSRC, sp, seq, 90000)
	var now int64
	if c.RealClock {
		ci.class("default-clock")
	} else if !rtp.VerifSetPacketizerClock(pk, func() time.Time { return inZone(time.Unix(0, now), c.ClockZone) }) {
		return ci, failf("hook: NewPacketizer did not return the library's packetizer")
	}
	if c.AbsSendTime != 0 {
		pk.EnableAbsSendTime(c.AbsSendTime)
	}
	absID := c.AbsSendTime // current abs-send-time id (0 = off); "enable" operations change it

	var (
		haveSeq, haveTS    bool
		nextSeq            uint16
		t0                 uint32
		acc                uint32 // samples + skips accumulated so far
		pktCalls, multi    int
		interleaved, wraps bool
		seenOther          bool
	)
	// every returned packet belongs to the caller: its serialisation must not change through later calls
	type keptPkt struct {
		p     *rtp.Packet
		wire  []byte
		op, j int
	}
	var kept []keptPkt
	if c.SeqMode == "fixed" || c.SeqMode == "app" {
		haveSeq, nextSeq = true, c.SeqStart
	}
	checkCommon := func(i, j int, p *rtp.Packet, what string) error {
		if p == nil {
			return failf("op %d: %s packet %d is nil", i, what, j)
		}
		if !haveSeq {
			haveSeq, nextSeq = true, p.SequenceNumber
		}
		if p.SequenceNumber != nextSeq {
			return failf("op %d: %s packet %d has sequence number %d, want %d", i, what, j, p.SequenceNumber, nextSeq)
		}
		if nextSeq == 65535 {
			wraps = true
		}
		nextSeq++
		if !haveTS {
			haveTS, t0 = true, p.Timestamp-acc
		}
		if p.Timestamp != t0+acc {
			return failf("op %d: %s packet %d has timestamp %d, want %d (first timestamp %d + %d samples so far)", i, what, j, p.Timestamp, t0+acc, t0, acc)
		}
		if p.Version != 2 || p.SSRC != c.SSRC || p.PayloadType != c.PT || len(p.CSRC) != 0 {
			return failf("op %d: %s packet %d: version %d ssrc %#x pt %d csrc %v, want 2/%#x/%d/none", i, what, j, p.Version, p.SSRC, p.PayloadType, p.CSRC, c.SSRC, c.PT)
		}

		return nil
	}

	for i, op := range c.Ops {
		switch op.Kind {
		case "enable":
			pk.EnableAbsSendTime(int(op.N))
			absID = int(op.N)
			seenOther = true
			ci.class("abs-send-time-id-changed-mid-stream")
		case "empty":
			// an empty (or nil) payload: no packets, and the call leaves no trace on later ones
			var none []byte
			if op.N == 1 {
				none = []byte{}
			}
			if pkts := pk.Packetize(none, op.Samples); len(pkts) != 0 {
				return ci, failf("op %d: Packetize of an empty payload returned %d packets", i, len(pkts))
			}
			seenOther = true
			ci.class("empty-payload-call")
		case "skip":
			if op.Steer != 0 && haveTS {
				op.N = uint32(op.Steer-2) - (t0 + acc)
				ci.class("steered-to-timestamp-boundary")
			}
			pk.SkipSamples(op.N)
			acc += op.N
			seenOther = true
		case "padding":
			seenOther = true
			pkts := pk.GeneratePadding(op.N)
			if len(pkts) != int(op.N) {
				return ci, failf("op %d: GeneratePadding(%d) returned %d packets", i, op.N, len(pkts))
			}
			for j, p := range pkts {
				if err := checkCommon(i, j, p, "padding"); err != nil {
					return ci, err
				}
				b, err := p.Marshal()
				if err != nil {
					if p.Padding && p.PaddingSize == 0 && len(p.Payload) == 255 {
						if e := r.finding("F08-padding-packets-unmarshalable", "op %d: GeneratePadding packet has the P flag, a 255-byte payload and PaddingSize 0: Marshal fails with %q", i, err); e != nil {
							return ci, e
						}

						return ci, nil
					}

					return ci, failf("op %d: padding packet %d does not marshal: %v", i, j, err)
				}
				var q rtp.Packet
				if err := q.Unmarshal(b); err != nil {
					return ci, failf("op %d: padding packet %d does not parse back: %v (%s)", i, j, err, hx(b))
				}
				if !q.Padding || len(q.Payload) != 0 || q.PaddingSize < 1 || int(q.PaddingSize) != len(b)-12 {
					return ci, failf("op %d: padding packet %d parses to P=%v payload %dB padding %d (packet %dB): not a padding-only packet", i, j, q.Padding, len(q.Payload), q.PaddingSize, len(b))
				}
				if q.SequenceNumber != p.SequenceNumber || q.Timestamp != p.Timestamp || q.SSRC != c.SSRC || q.PayloadType != c.PT || q.Version != 2 || q.Marker != p.Marker {
					return ci, failf("op %d: padding packet %d changes on the wire", i, j)
				}
				kept = append(kept, keptPkt{p, b, i, j})
			}
		case "packetize":
			payload := expand(op.Seed, 0, op.PayloadLen)
			if c.Payloader == "av1" {
				payload[0] = 0x30 // OBU_FRAME, no extension, no size field: the whole buffer is one OBU
			}
			if c.Payloader == "vp9nonflex" {
				payload[0] = 0x84 // frame_marker 2, profile 0, not show_existing, non-key frame: a parsable header
			}
			if st, ok := inner.(*stub); ok {
				st.frags = op.StubFrags
			}
			if op.Steer != 0 && haveTS {
				op.Samples = uint32(op.Steer-2) - (t0 + acc)
				ci.class("steered-to-timestamp-boundary")
			}
			now = op.ClockNs
			before := sp.calls
			wallBefore := time.Now().UnixNano()
			pkts := pk.Packetize(clone(payload), op.Samples)
			wallAfter := time.Now().UnixNano()
			if sp.calls != before+1 {
				return ci, failf("op %d: Packetize called the payloader %d times", i, sp.calls-before)
			}
			if len(pkts) != len(sp.frags) {
				return ci, failf("op %d: payloader returned %d fragments, Packetize %d packets", i, len(sp.frags), len(pkts))
			}
			if len(pkts) > 0 {
				pktCalls++
				if pktCalls >= 1 && seenOther {
					interleaved = true
				}
			}
			if len(pkts) >= 2 {
				multi++
			}
			for j, p := range pkts {
				if err := checkCommon(i, j, p, "Packetize"); err != nil {
					return ci, err
				}
				if !bytes.Equal(p.Payload, sp.frags[j]) {
					return ci, failf("op %d: packet %d payload differs from the payloader's fragment %d", i, j, j)
				}
				last := j == len(pkts)-1
				if p.Marker != last {
					return ci, failf("op %d: packet %d of %d has marker=%v", i, j, len(pkts), p.Marker)
				}
				if p.Padding || p.PaddingSize != 0 {
					return ci, failf("op %d: packet %d has padding", i, j)
				}
				if absID != 0 && last {
					ids := p.GetExtensionIDs()
					if !p.Extension || len(ids) != 1 || int(ids[0]) != absID {
						return ci, failf("op %d: last packet carries extensions %v, want exactly abs-send-time id %d", i, ids, absID)
					}
					v := p.GetExtension(ids[0])
					if len(v) != 3 {
						return ci, failf("op %d: abs-send-time value %s is not 3 bytes", i, hx(v))
					}
					got := uint32(v[0])<<16 | uint32(v[1])<<8 | uint32(v[2])
					want := ntp.Abs24Floor(op.ClockNs)
					if c.RealClock {
						lo, hi := ntp.Abs24Floor(wallBefore), ntp.Abs24Floor(wallAfter)
						if off, span := (got-lo+1)&0xFFFFFF, (hi-lo)&0xFFFFFF; off > span+2 {
							return ci, failf("op %d: abs-send-time %#06x from the packetizer's own clock lies outside [%#06x, %#06x], the 6.18 values of the instants read right before and after the call", i, got, lo, hi)
						}
					} else if d := (got - want) & 0xFFFFFF; d != 0 && d != 1 && d != 0xFFFFFF {
						return ci, failf("op %d: abs-send-time %#06x, the send instant %d ns is %#06x in 6.18 fixed point", i, got, op.ClockNs, want)
					}
				} else if p.Extension || len(p.GetExtensionIDs()) != 0 {
					return ci, failf("op %d: packet %d of %d carries a header extension (abs-send-time id %d)", i, j, len(pkts), absID)
				}
				size := p.MarshalSize()
				b, err := p.Marshal()
				if err != nil || len(b) != size {
					return ci, failf("op %d: packet %d does not marshal: %v (%d bytes, MarshalSize %d)", i, j, err, len(b), size)
				}
				if size > int(c.MTU) {
					if absID >= 1 && absID <= 14 && last && size <= int(c.MTU)+8 && len(sp.frags[j])+12 <= int(c.MTU) {
						if e := r.finding("F09-abs-send-time-exceeds-mtu", "op %d: with abs-send-time enabled the last packet serialises to %d bytes, MTU %d (payload budget does not reserve the 8-byte extension)", i, size, c.MTU); e != nil {
							return ci, e
						}
					} else {
						return ci, failf("op %d: packet %d serialises to %d bytes, MTU %d", i, j, size, c.MTU)
					}
				}
				var q rtp.Packet
				if err := q.Unmarshal(b); err != nil {
					return ci, failf("op %d: packet %d does not parse back: %v", i, j, err)
				}
				if a, bb := pktObs(p), pktObs(&q); a != bb {
					return ci, failf("op %d: packet %d parses back differently:\n sent:   %s\n parsed: %s", i, j, a, bb)
				}
				kept = append(kept, keptPkt{p, b, i, j})
			}
			acc += op.Samples
		}
	}
	if app != nil && app.calls != len(kept) {
		// every number drawn from the application's sequencer must appear on a packet
		return ci, failf("the application-supplied sequencer was asked for %d numbers, %d packets were returned", app.calls, len(kept))
	}
	for _, k := range kept {
		b, err := k.p.Marshal()
		if err != nil || !bytes.Equal(b, k.wire) {
			return ci, failf("packet %d returned by op %d changed after later calls on the packetizer (%d ops in all): it serialised to %s, now to %s (err %v)", k.j, k.op, len(c.Ops), hb(k.wire), hb(b), err)
		}
	}
	if len(kept) > 0 && kept[0].op < len(c.Ops)-1 {
		ci.class("earlier-packets-rechecked-after-later-calls")
	}
	ci.Nontrivial = pktCalls >= 2 && multi >= 1 && interleaved
	if wraps {
		ci.class("sequence-wraps")
	}
	if multi > 0 {
		ci.class("multi-packet-call")
	}

	return ci, nil
}

var c06Payloaders = []string{"g711", "g722", "opus", "vp8", "vp8pid", "vp9flex", "vp9nonflex", "h264", "h264nostap", "h265", "h265donl", "av1", "stub", "stub"}

func genPktzCase(t *rapid.T) *PktzCase {
	c := &PktzCase{
		MTU:       uint16(biased(t, "mtu", 64, 65535, 64, 65, 66, 100, 267, 1200, 1500)),
		PT:        uint8(rapid.IntRange(0, 127).Draw(t, "pt")),
		SSRC:      genU32(t, "ssrc"),
		SeqMode:   rapid.SampledFrom([]string{"fixed", "fixed", "fixed", "random", "app"}).Draw(t, "seqmode"),
		Payloader: rapid.SampledFrom(c06Payloaders).Draw(t, "payloader"),
	}
	c.SeqStart = uint16(biased(t, "seqstart", 0, 65535, 65530, 65531, 65532, 65533, 65534, 65535, 0, 1))
	if genBool(t, "abs") {
		c.AbsSendTime = biased(t, "absid", 1, 255, 1, 14, 15, 16, 255) // 1-14: one-byte form, 15-255: two-byte form
	}
	c.RealClock = rapid.IntRange(0, 7).Draw(t, "realclock") == 0
	if rapid.IntRange(0, 3).Draw(t, "clockzone") == 0 {
		c.ClockZone = rapid.SampledFrom([]int{3600, -28800, 19800, 50400, -43200, 1172}).Draw(t, "clockzonev")
	}
	prevClock := int64(-1)
	budget := int(c.MTU) - 12 - 12
	nops := rapid.IntRange(1, 10).Draw(t, "nops")
	for i := 0; i < nops; i++ {
		kind := rapid.SampledFrom([]string{"packetize", "packetize", "packetize", "skip", "padding"}).Draw(t, "kind")
		if i > 0 && rapid.IntRange(0, 11).Draw(t, "reenable") == 0 {
			kind = "enable"
		}
		if rapid.IntRange(0, 11).Draw(t, "emptycall") == 0 {
			kind = "empty"
		}
		op := PktzOp{Kind: kind}
		switch kind {
		case "empty":
			op.N, op.Samples = uint32(rapid.IntRange(0, 1).Draw(t, "emptykind")), 0 // zero samples: whether an empty call counts its samples is left open by the property
		case "enable":
			op.N = uint32(biased(t, "newabsid", 0, 255, 0, 1, 14, 15, 16, 255))
		case "skip":
			op.N = genU32(t, "skip")
		case "padding":
			op.N = uint32(rapid.IntRange(0, 5).Draw(t, "npad"))
			if rapid.IntRange(0, 199).Draw(t, "padburst") == 113 {
				// a burst as long as the sequence space or longer: still exactly n packets
				op.N = uint32(rapid.SampledFrom([]int{65535, 65536, 65537}).Draw(t, "padburstn"))
			}
		default:
			maxLen := 3000
			if c.Payloader == "opus" {
				maxLen = budget
			}
			if c.MTU > 2000 {
				maxLen = mini(maxLen*3, 3*int(c.MTU))
				if c.Payloader == "opus" {
					maxLen = budget
				}
			}
			op.PayloadLen = biased(t, "plen", 1, maxLen, append([]int{1, 2, 3}, around(2, budget, budget+8, 2*budget, 3*budget)...)...)
			op.Seed = rapid.Uint64().Draw(t, "pseed")
			op.Samples = genU32(t, "samples")
			// instants between 1970 and 2036 (NTP era 0) ...
			const era1 = 2085978496 * 1_000_000_000 // 2036-02-07 06:28:16 UTC, where the 32-bit NTP seconds wrap
			op.ClockNs = rapid.Int64Range(0, era1-1).Draw(t, "clock")
			if rapid.IntRange(0, 3).Draw(t, "clockera1") == 2 {
				// ... or later, up to what time.Time.UnixNano can express (2262): the 6.18 value only holds the
				// seconds modulo 64 and is as well defined there
				op.ClockNs = rapid.OneOf(rapid.Int64Range(era1, 1<<63-1-1_000_000_000_000), rapid.Int64Range(era1-3_000_000_000, era1+70_000_000_000)).Draw(t, "clocklate")
			}
			if prevClock >= 0 && rapid.IntRange(0, 2).Draw(t, "clocknear") == 0 {
				// a realistic stream: the next frame a little later (or at the very same instant)
				op.ClockNs = prevClock + rapid.SampledFrom([]int64{0, 1, 3814, 3815, 3816, 1_000_000, 33_333_333, 1_000_000_000, 64_000_000_000}).Draw(t, "clockstep")
			}
			prevClock = op.ClockNs
			if c.Payloader == "stub" {
				nf := rapid.IntRange(0, 6).Draw(t, "nfrags")
				for k := 0; k < nf; k++ {
					op.StubFrags = append(op.StubFrags, rapid.SampledFrom([]int{1000, 1000, 999, 500, 1, 10, 750, 0, -1}).Draw(t, "frag"))
				}
			}
		}
		if i > 0 && (kind == "skip" || kind == "packetize") && rapid.IntRange(0, 5).Draw(t, "steer") == 0 {
			op.Steer = rapid.IntRange(1, 3).Draw(t, "steerto")
		}
		c.Ops = append(c.Ops, op)
	}

	return c
}

const ruleC06 = "rapid draws a packetizer configuration (MTU 64-65535 biased to 64,65,100,267,1200,1500; PT; SSRC; fixed sequencer with start biased to 65530-65535/0, random sequencer, or a Sequencer implemented by the harness (every number it hands out must appear on a packet); abs-send-time off or id 1-255 (one-byte form up to 14, two-byte form above; one operation in twelve calls EnableAbsSendTime again with another id or 0) with an injected clock (instants uniform in 1970-2036, one in four in 2036-2262 (past the NTP era boundary) or within seconds of that boundary, or a small step after the previous call's, in the default or a fixed-offset zone; one case in eight injects no clock and brackets the value between the instants read right before and after the call); payloader in {G711,G722,Opus,VP8+-pid,VP9 flexible/non-flexible,H264+-STAP-A,H265+-DONL,AV1, scripted stub whose fragments may also be empty or nil}) and 1-10 operations Packetize(non-empty payload, samples)/Packetize(nil or empty payload: no packets, no trace)/SkipSamples/GeneratePadding(0-5, rarely 65535-65537); one op in six is 'steered': its sample count is computed at run time from the learned first timestamp so that the next timestamp is exactly 0xFFFFFFFF, 0 or 1. Oracle: spy on the payloader (fragments unchanged and in order), sequence/timestamp model (learned first values), fixed fields, marker, abs-send-time = exact 6.18 value of the injected instant, MarshalSize<=MTU, marshal/parse equality, padding packets valid padding-only RTP; every packet returned earlier still serialises to the same bytes after all later calls. Non-trivial = >=2 productive Packetize calls, one with >=2 packets, with a Skip/Padding before one of them; distinct = FNV-64 of the JSON case"

func TestC06(t *testing.T) {
	r := begin(t, "C06", "exploration", ruleC06)
	defer r.finish()
	subC06.rapidRun(r, n(6000, 300000), genPktzCase)
}

var _ = fmt.Sprintf
