package harness

// C01 — RTP packet encode/decode round trip is lossless.

import (
	"bytes"
	"errors"
	"testing"

	"github.com/pion/rtp"

	"verifharness/ref/rtpwire"
)

var subC01 = register("C01", "roundtrip", checkC01)

func checkC01(r *run, m *PacketModel) (CaseInfo, error) {
	var ci CaseInfo
	m.classify(&ci)

	p, err := m.packet()
	if errors.Is(err, errAppbitsNotLegacy) {
		ci.class("appbits-profile-not-legacy")

		return ci, nil
	}
	if err != nil {
		return ci, failf("model not constructible through the public API: %v", err)
	}
	size := p.MarshalSize()
	wantSize := m.headerSize() + len(m.Payload) + int(m.PaddingSize)
	if size != wantSize {
		return ci, failf("Packet.MarshalSize()=%d, RFC size of the model is %d", size, wantSize)
	}
	buf, err := p.Marshal()
	if err != nil {
		return ci, failf("Packet.Marshal failed on a well-formed packet: %v", err)
	}
	if len(buf) != size {
		return ci, failf("Packet.Marshal produced %d bytes, MarshalSize()=%d", len(buf), size)
	}
	{
		// the caller owns what Marshal returned: overwriting it must not reach the packet or a later Marshal
		pristine := clone(buf)
		for i := range buf {
			buf[i] ^= 0xFF
		}
		buf = pristine
		if again, err := p.Marshal(); err != nil || !bytes.Equal(again, buf) {
			return ci, failf("a second Marshal of the same packet (after the caller overwrote the first result) differs from the first (err %v)", err)
		}
	}
	// encoder conformance against the independent reference (so that a symmetric
	// encode/decode defect cannot hide): the strict RFC parser must read the model back.
	w, err := rtpwire.Parse(buf)
	if err != nil {
		return ci, failf("reference parser rejects Marshal output %s: %v", hx(buf), err)
	}
	if err := compareWire(m, w, true); err != nil {
		return ci, failf("Marshal output %s read by the reference parser: %v", hx(buf), err)
	}
	if m.PaddingSize > 0 && buf[len(buf)-1] != m.PaddingSize {
		return ci, failf("last octet %d is not the padding count %d", buf[len(buf)-1], m.PaddingSize)
	}

	var q rtp.Packet
	if err := q.Unmarshal(buf); err != nil {
		return ci, failf("Unmarshal rejects the packet's own Marshal output (%d bytes, %s): %v", len(buf), hx(buf), err)
	}
	if err := m.comparePacket(&q, "Unmarshal(Marshal(p))"); err != nil {
		return ci, err
	}

	// the same bytes decoded the way a receive loop does: one buffer, one Packet, which has
	// just decoded another packet (shorter header, payload at least as long) from that buffer
	{
		shared := make([]byte, len(buf)+64)
		first := make([]byte, 12+len(m.Payload)+8)
		first[0] = 0x80
		var rq rtp.Packet
		if err := rq.Unmarshal(shared[:copy(shared, first)]); err != nil {
			return ci, failf("harness: plain packet rejected: %v", err)
		}
		in := shared[:copy(shared, buf)]
		if err := rq.Unmarshal(in); err != nil {
			return ci, failf("Unmarshal into a reused Packet rejects the packet's own Marshal output: %v", err)
		}
		if !bytes.Equal(in, buf) {
			return ci, failf("Unmarshal into a reused Packet (same receive buffer) modified its input")
		}
		if err := m.comparePacket(&rq, "Unmarshal(Marshal(p)) into a reused Packet through one receive buffer"); err != nil {
			return ci, err
		}
	}

	// a Packet that decoded a packet WITH extensions decodes this one; when this one has none, the first extension
	// set afterwards must be the only one (entries hidden behind a cleared X flag would come back here)
	{
		withExt := []byte{0x90, 0x60, 0x00, 0x01, 0, 0, 0, 1, 0, 0, 0, 2, 0xBE, 0xDE, 0x00, 0x02, 0x10, 0xAA, 0x21, 0xBB, 0xCC, 0x00, 0x00, 0x00, 0x99}
		var sq rtp.Packet
		if err := sq.Unmarshal(withExt); err != nil {
			return ci, failf("harness: packet with two one-byte extensions rejected: %v", err)
		}
		if err := sq.Unmarshal(clone(buf)); err != nil {
			return ci, failf("Unmarshal into a Packet that had decoded extensions rejects the packet's own Marshal output: %v", err)
		}
		if err := m.comparePacket(&sq, "Unmarshal(Marshal(p)) into a Packet that had decoded a packet with extensions"); err != nil {
			return ci, err
		}
		if m.ExtKind == "none" {
			if err := sq.SetExtension(5, []byte{0x55}); err != nil {
				return ci, failf("SetExtension(5) on a decoded packet without extensions: %v", err)
			}
			if ids := sq.GetExtensionIDs(); len(ids) != 1 || ids[0] != 5 {
				return ci, failf("a Packet decoded extensions, then this packet (no X bit), then SetExtension(5): ids %v, want [5] (elements of the earlier packet came back)", ids)
			}
		}
	}

	// a receiver that was edited between two decodes (a forwarder strips an extension, then the next packet
	// arrives in the same Packet): the second decode must give back every field again
	{
		var eq rtp.Packet
		if err := eq.Unmarshal(clone(buf)); err != nil {
			return ci, failf("Unmarshal rejects the packet's own Marshal output: %v", err)
		}
		if ids := eq.GetExtensionIDs(); len(ids) >= 2 && (m.ExtKind == "onebyte" || m.ExtKind == "twobyte") {
			if err := eq.DelExtension(ids[int(m.Seq)%(len(ids)-1)]); err != nil { // any element but the last
				return ci, failf("DelExtension(%d) on a decoded packet: %v", ids[0], err)
			}
			ci.class("decode-after-delextension")
		} else {
			eq.Marker, eq.CSRC = !eq.Marker, append(eq.CSRC, 7)
		}
		in := clone(buf)
		if err := eq.Unmarshal(in); err != nil {
			return ci, failf("Unmarshal into a Packet that was edited after an earlier decode rejects the packet's own Marshal output: %v", err)
		}
		if !bytes.Equal(in, buf) {
			return ci, failf("Unmarshal into an edited Packet modified its input")
		}
		if err := m.comparePacket(&eq, "Unmarshal(Marshal(p)) into a Packet edited (DelExtension / fields) after an earlier decode"); err != nil {
			return ci, err
		}
	}

	// a packet as it comes off the wire may repeat an extension id (SetExtension cannot build that): it still has to
	// survive Unmarshal -> Marshal -> Unmarshal element by element
	if (m.ExtKind == "onebyte" || m.ExtKind == "twobyte") && len(m.Exts) >= 2 && len(m.Exts) <= 40 && m.Seq%4 == 0 {
		wc := WireCase{Model: *m}
		wc.Model.Exts = append([]ExtElem{}, m.Exts...)
		wc.Model.Exts[len(m.Exts)-1].ID = m.Exts[0].ID
		if img, _, _, e := wc.image(); e == nil {
			ci.class("wire-image-repeats-an-id")
			var d1, d2 rtp.Packet
			if err := d1.Unmarshal(clone(img)); err != nil {
				return ci, failf("Unmarshal rejects a well-formed image that repeats extension id %d: %v (%s)", m.Exts[0].ID, err, hx(img))
			}
			if err := wc.Model.comparePacket(&d1, "Unmarshal of an image that repeats an extension id"); err != nil {
				return ci, err
			}
			again, err := d1.Marshal()
			if err != nil {
				return ci, failf("Marshal of a decoded packet that repeats an extension id: %v", err)
			}
			if err := d2.Unmarshal(again); err != nil {
				return ci, failf("Unmarshal rejects Marshal's output for a packet that repeats an extension id: %v", err)
			}
			if err := wc.Model.comparePacket(&d2, "Unmarshal(Marshal(p)) for a decoded packet that repeats an extension id"); err != nil {
				return ci, err
			}
		}
	}

	// Header alone.
	hsz := p.Header.MarshalSize()
	if hsz != m.headerSize() {
		return ci, failf("Header.MarshalSize()=%d, want %d", hsz, m.headerSize())
	}
	hb, err := p.Header.Marshal()
	if err != nil {
		return ci, failf("Header.Marshal failed: %v", err)
	}
	if len(hb) != hsz {
		return ci, failf("Header.Marshal produced %d bytes, MarshalSize()=%d", len(hb), hsz)
	}
	if !bytes.Equal(hb, buf[:hsz]) {
		return ci, failf("Header.Marshal %s is not the prefix of Packet.Marshal %s", hx(hb), hx(buf[:hsz]))
	}
	var h rtp.Header
	nn, err := h.Unmarshal(hb)
	if err != nil {
		return ci, failf("Header.Unmarshal rejects Header.Marshal output %s: %v", hx(hb), err)
	}
	if nn != hsz {
		return ci, failf("Header.Unmarshal reported length %d, header size is %d", nn, hsz)
	}
	if err := m.compareHeader(&h, "Header.Unmarshal(Header.Marshal(h))"); err != nil {
		return ci, err
	}
	// Header.Unmarshal on the whole packet reports the same header length.
	var h2 rtp.Header
	nn, err = h2.Unmarshal(buf)
	if err != nil || nn != hsz {
		return ci, failf("Header.Unmarshal on the whole packet: n=%d err=%v, want n=%d", nn, err, hsz)
	}

	return ci, nil
}

// compareWire compares what the strict reference parser read with the model.
func compareWire(m *PacketModel, w *rtpwire.Packet, canonical bool) error {
	if w.Version != m.Version || w.Marker != m.Marker || w.PT != m.PT || w.Seq != m.Seq || w.TS != m.TS ||
		w.SSRC != m.SSRC || w.Padding != (m.PaddingSize > 0) || w.PadLen != int(m.PaddingSize) {
		return failf("fixed fields differ: V=%d M=%v PT=%d seq=%d ts=%d ssrc=%d P=%v pad=%d",
			w.Version, w.Marker, w.PT, w.Seq, w.TS, w.SSRC, w.Padding, w.PadLen)
	}
	if len(w.CSRC) != len(m.CSRC) {
		return failf("CSRC count %d, want %d", len(w.CSRC), len(m.CSRC))
	}
	for i := range m.CSRC {
		if w.CSRC[i] != m.CSRC[i] {
			return failf("CSRC[%d] differs", i)
		}
	}
	if w.Ext != (m.ExtKind != "none") {
		return failf("X bit %v", w.Ext)
	}
	if w.Ext {
		if w.Profile != m.Profile {
			return failf("profile %#x want %#x", w.Profile, m.Profile)
		}
		if len(w.Elems) != len(m.Exts) {
			return failf("%d elements, want %d", len(w.Elems), len(m.Exts))
		}
		for i, e := range m.Exts {
			if w.Elems[i].ID != e.ID || !bytes.Equal(w.Elems[i].Val, e.Val) {
				return failf("element %d is (%d,%s), want (%d,%s)", i, w.Elems[i].ID, hx(w.Elems[i].Val), e.ID, hx(e.Val))
			}
		}
		if canonical && w.HeaderLen != m.headerSize() {
			return failf("header length %d, want %d", w.HeaderLen, m.headerSize())
		}
	}
	if !bytes.Equal(w.Payload, m.Payload) {
		return failf("payload %s want %s", hx(w.Payload), hx(m.Payload))
	}

	return nil
}

const ruleC01 = "rapid draws well-formed Packet models (version 0-3, marker, PT 0-127, sequence/timestamp/SSRC biased to 0, 1 and the maxima, 0-15 CSRCs, no/one-byte/two-byte/legacy extension built with SetExtension incl. empty two-byte values, 16-byte one-byte values, ids 1-14 / 1-255, a two-byte block filled to 64 KiB in one case of 150 and legacy values of up to 65535 words, payload 0-1500 B or (one case in 200) 64-70 KiB, nil or empty payload, padding 0 or 1-255); oracle: MarshalSize = RFC size of the model, Marshal, a second Marshal after the caller overwrote the first result, the independent RFC 3550/8285 parser reads the model back from the encoder output, Unmarshal into a fresh Packet and into a Packet that decoded another packet before (also from one shared receive buffer, into a Packet edited with DelExtension after an earlier decode, and into one that had decoded a packet with extensions - followed by a SetExtension when this packet has none) gives back every field, Header.Marshal/Unmarshal likewise; a quarter of the RFC 8285 models are also laid out as a wire image that repeats an extension id and taken through Unmarshal, Marshal, Unmarshal; non-trivial = has extension, CSRC, padding or an empty payload; distinct = FNV-64 of the JSON case"

func TestC01(t *testing.T) {
	r := begin(t, "C01", "exploration", ruleC01)
	defer r.finish()
	subC01.rapidRun(r, n(30000, 800000), genPacketModel)
}
