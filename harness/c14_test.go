package harness

// C14 — H265 packetization is lossless, RFC 7798-shaped; parser decodes every form.

import (
	"bytes"
	"fmt"
	"testing"

	"github.com/pion/rtp/codecs"
	"pgregory.net/rapid"

	"verifharness/ref/h265rtp"
)

type HNAL struct {
	Type      uint8  `json:"type"`
	Layer     uint8  `json:"layer"`
	TID       uint8  `json:"tid"`
	F         bool   `json:"f"`
	Len       int    `json:"len"` // total, >= 3
	Seed      uint64 `json:"seed"`
	StartCode int    `json:"start_code"`
}

func (n *HNAL) nal() []byte {
	b := expand(n.Seed, 0, n.Len)
	hb := h265rtp.Hdr{F: n.F, Type: n.Type, LayerID: n.Layer, TID: n.TID}.Bytes()
	b[0], b[1] = hb[0], hb[1]
	if n.Seed&3 == 0 {
		step := 5 + int(n.Seed>>8)%7
		for i := 3; i+3 < len(b); i += step {
			b[i], b[i+1] = 0, 0
			if n.Seed&4 == 0 {
				b[i+2] = 3
			}
		}
	}
	zeros := 0
	if b[1] == 0 {
		zeros = 1
	}
	for i := 2; i < len(b); i++ {
		if zeros >= 2 && b[i] <= 2 {
			b[i] |= 0x04 // 00 00 00/01/02 cannot occur inside a NAL unit; 00 00 03 (emulation prevention) can
		}
		if b[i] == 0 {
			zeros++
		} else {
			zeros = 0
		}
	}
	if b[len(b)-1] == 0 {
		b[len(b)-1] = 0x80
	}
	if n.Seed&0x30000 == 0x10000 && len(b) >= 6 {
		// an RBSP that ends in zero words gets a final emulation-prevention byte: the unit ends in 00 00 03
		b[len(b)-3], b[len(b)-2], b[len(b)-1] = 0, 0, 3
		if b[len(b)-4] == 0 {
			b[len(b)-4] = 0x55
		}
	}

	return b
}

type H265PayCase struct {
	MTU             uint16   `json:"mtu"`
	AddDONL         bool     `json:"add_donl"`
	SkipAggregation bool     `json:"skip_aggregation"`
	Calls           [][]HNAL `json:"calls"`
	// Lead[k]: zero bytes in front of the first start code of call k (Annex B leading_zero_8bits)
	Lead []int `json:"lead,omitempty"`
}

var (
	subC14Pay = register("C14", "payloader", checkC14Pay)
	subC14Dec = register("C14", "decoder", checkC14Dec)
	subC14Acc = register("C14", "accessors", checkC14Acc)
)

func annexB(units []HNAL) []byte {
	var out []byte
	for i := range units {
		if units[i].StartCode == 4 {
			out = append(out, 0, 0, 0, 1)
		} else {
			out = append(out, 0, 0, 1)
		}
		out = append(out, units[i].nal()...)
	}

	return out
}

// libParsed decodes p with H265Packet and renders what its accessors report.
func libParsed(p []byte, donl bool) (string, error) {
	var hp codecs.H265Packet
	hp.WithDONL(donl)

	return libParsedWith(&hp, p)
}

// libParsedWith decodes p with a caller-supplied (possibly already used) H265Packet.
func libParsedWith(hp *codecs.H265Packet, p []byte) (string, error) {
	if _, err := hp.Unmarshal(clone(p)); err != nil {
		return "", err
	}

	return renderH265(hp.Packet())
}

// renderH265 renders what the accessors of a decoded packet report.
func renderH265(pkt any) (string, error) {
	dp := func(v *uint16) string {
		if v == nil {
			return "-"
		}

		return fmt.Sprint(*v)
	}
	switch x := pkt.(type) {
	case *codecs.H265SingleNALUnitPacket:
		h := x.PayloadHeader()

		return fmt.Sprintf("single F%v t%d l%d tid%d donl%s payload=%x", h.F(), h.Type(), h.LayerID(), h.TID(), dp(x.DONL()), x.Payload()), nil
	case *codecs.H265AggregationPacket:
		s := fmt.Sprintf("ap donl%s [%d:%x]", dp(x.FirstUnit().DONL()), x.FirstUnit().NALUSize(), x.FirstUnit().NalUnit())
		for _, u := range x.OtherUnits() {
			d := "-"
			if u.DOND() != nil {
				d = fmt.Sprint(*u.DOND())
			}
			s += fmt.Sprintf(" dond%s [%d:%x]", d, u.NALUSize(), u.NalUnit())
		}

		return s, nil
	case *codecs.H265FragmentationUnitPacket:
		h := x.PayloadHeader()

		return fmt.Sprintf("fu F%v t%d l%d tid%d S%v E%v futype%d donl%s payload=%x", h.F(), h.Type(), h.LayerID(), h.TID(), x.FuHeader().S(), x.FuHeader().E(), x.FuHeader().FuType(), dp(x.DONL()), x.Payload()), nil
	case *codecs.H265PACIPacket:
		h := x.PayloadHeader()
		s := fmt.Sprintf("paci F%v t%d l%d tid%d A%v c%d phs%d F0%v F1%v F2%v Y%v phes=%x payload=%x", h.F(), h.Type(), h.LayerID(), h.TID(), x.A(), x.CType(), x.PHSsize(), x.F0(), x.F1(), x.F2(), x.Y(), x.PHES(), x.Payload())
		if t := x.TSCI(); t != nil {
			s += fmt.Sprintf(" tsci(tl0 %d irap %d S%v E%v res%d)", t.TL0PICIDX(), t.IrapPicID(), t.S(), t.E(), t.RES())
		}

		return s, nil
	}

	return "", failf("H265Packet.Packet() has unknown type %T", pkt)
}

// refRendered renders the reference parse in the same vocabulary.
func refRendered(pl *h265rtp.Payload) string {
	dp := func(v *uint16) string {
		if v == nil {
			return "-"
		}

		return fmt.Sprint(*v)
	}
	h := pl.Hdr
	switch pl.Kind {
	case "single":
		return fmt.Sprintf("single F%v t%d l%d tid%d donl%s payload=%x", h.F, h.Type, h.LayerID, h.TID, dp(pl.DONL), pl.Unit[2:])
	case "ap":
		s := fmt.Sprintf("ap donl%s [%d:%x]", dp(pl.DONL), len(pl.Units[0]), pl.Units[0])
		for i, u := range pl.Units[1:] {
			d := "-"
			if pl.DONL != nil {
				d = fmt.Sprint(pl.DONDs[i])
			}
			s += fmt.Sprintf(" dond%s [%d:%x]", d, len(u), u)
		}

		return s
	case "fu":
		return fmt.Sprintf("fu F%v t%d l%d tid%d S%v E%v futype%d donl%s payload=%x", h.F, h.Type, h.LayerID, h.TID, pl.S, pl.E, pl.FuType, dp(pl.DONL), pl.Fragment)
	default:
		s := fmt.Sprintf("paci F%v t%d l%d tid%d A%v c%d phs%d F0%v F1%v F2%v Y%v phes=%x payload=%x", h.F, h.Type, h.LayerID, h.TID, pl.A, pl.CType, pl.PHSsize, pl.F0, pl.F1, pl.F2, pl.Y, pl.PHES, pl.PACIData)
		if pl.F0 && pl.PHSsize >= 3 {
			s += fmt.Sprintf(" tsci(tl0 %d irap %d S%v E%v res%d)", pl.PHES[0], pl.PHES[1], pl.PHES[2]&0x80 != 0, pl.PHES[2]&0x40 != 0, pl.PHES[2]&0x3F)
		}

		return s
	}
}

func checkC14Pay(r *run, c *H265PayCase) (CaseInfo, error) {
	var ci CaseInfo
	pl := &codecs.H265Payloader{AddDONL: c.AddDONL, SkipAggregation: c.SkipAggregation}
	mtu := int(c.MTU)
	if c.AddDONL {
		ci.class("donl")
	}
	if c.SkipAggregation {
		ci.class("skip-aggregation")
	}
	// a receiver decodes the whole stream through ONE H265Packet: it must read what a fresh one reads
	var stream codecs.H265Packet
	stream.WithDONL(c.AddDONL)
	streamed := 0
	type keptH265 struct {
		pkt      any
		rendered string
	}
	var kept []keptH265 // what Packet() returned for every payload, read again after the whole stream was decoded
	for callI, units := range c.Calls {
		buf := annexB(units)
		if callI < len(c.Lead) && c.Lead[callI] > 0 {
			buf = append(make([]byte, c.Lead[callI]), buf...)
			ci.class("zero-bytes-before-the-first-start-code")
		}
		orig := clone(buf)
		payloads := pl.Payload(c.MTU, buf)
		for pi, p := range payloads {
			rp, err := h265rtp.Parse(p, c.AddDONL)
			if err != nil || rp.Hdr.F {
				continue // reported below / rejected by H265Packet by design
			}
			fresh, ferr := libParsed(p, c.AddDONL)
			used, uerr := libParsedWith(&stream, p)
			if uerr == nil {
				kept = append(kept, keptH265{stream.Packet(), used})
			}
			if (ferr == nil) != (uerr == nil) || fresh != used {
				return ci, failf("call %d payload %d/%d (mtu %d, donl %v) %s: an H265Packet that decoded the %d earlier payloads of this stream reads\n  %s (%v)\na fresh one\n  %s (%v)", callI, pi, len(payloads), mtu, c.AddDONL, hx(p), streamed, used, uerr, fresh, ferr)
			}
			streamed++
		}
		if !bytes.Equal(buf, orig) {
			return ci, failf("call %d: payloader modified its input", callI)
		}
		var want [][]byte
		for i := range units {
			want = append(want, units[i].nal())
			if l := units[i].Len; l >= mtu-5 && l <= mtu+3 {
				ci.class("unit-near-single-packet-threshold")
				ci.Nontrivial = true
			}
		}
		var got [][]byte
		f19 := false
		hasAP, hasFU := false, false
		for pi := 0; pi < len(payloads); pi++ {
			p := payloads[pi]
			what := fmt.Sprintf("call %d payload %d/%d (mtu %d, donl %v) %s", callI, pi, len(payloads), mtu, c.AddDONL, hx(p))
			if len(p) > mtu {
				return ci, failf("%s: %d bytes exceed the MTU", what, len(p))
			}
			rp, err := h265rtp.Parse(p, c.AddDONL)
			if err != nil {
				return ci, failf("%s: not a well-formed RFC 7798 payload: %v", what, err)
			}
			isHead := rp.Kind != "fu" || rp.S
			if (&codecs.H265Packet{}).IsPartitionHead(p) != isHead {
				return ci, failf("%s: IsPartitionHead=%v, want %v", what, !isHead, isHead)
			}
			// H265Packet must read the same thing as the reference parser (F=1 units are
			// rejected by H265Packet by design and only checked against the reference).
			if !rp.Hdr.F {
				ls, lerr := libParsed(p, c.AddDONL)
				if lerr != nil {
					return ci, failf("%s: H265Packet rejects the payloader's output: %v", what, lerr)
				}
				if rs := refRendered(rp); ls != rs {
					return ci, failf("%s: H265Packet reads\n  %s\nthe reference parser\n  %s", what, ls, rs)
				}
			}
			switch rp.Kind {
			case "single":
				if c.AddDONL && rp.DONL == nil {
					return ci, failf("%s: single NAL unit packet without DONL", what)
				}
				got = append(got, rp.Unit)
			case "ap":
				hasAP = true
				ci.class("ap")
				if c.SkipAggregation {
					return ci, failf("%s: aggregation packet although aggregation is skipped", what)
				}
				minL, minT := uint8(63), uint8(7)
				for _, u := range rp.Units {
					uh := h265rtp.ParseHdr(u)
					if uh.LayerID < minL {
						minL = uh.LayerID
					}
					if uh.TID < minT {
						minT = uh.TID
					}
				}
				if rp.Hdr.LayerID != minL || rp.Hdr.TID != minT {
					return ci, failf("%s: AP header layer %d tid %d, want the minima %d/%d", what, rp.Hdr.LayerID, rp.Hdr.TID, minL, minT)
				}
				got = append(got, rp.Units...)
			case "fu":
				hasFU = true
				ci.class("fu")
				if !rp.S {
					return ci, failf("%s: FU without S outside a train", what)
				}
				// collect the train
				train := []*h265rtp.Payload{rp}
				for !train[len(train)-1].E && pi+1 < len(payloads) {
					np, err := h265rtp.Parse(payloads[pi+1], c.AddDONL)
					if err != nil || np.Kind != "fu" || np.S {
						break
					}
					if len(payloads[pi+1]) > mtu {
						return ci, failf("call %d payload %d: %d bytes exceed the MTU", callI, pi+1, len(payloads[pi+1]))
					}
					if (&codecs.H265Packet{}).IsPartitionHead(payloads[pi+1]) {
						return ci, failf("call %d payload %d: IsPartitionHead true on a continuation FU", callI, pi+1)
					}
					if !np.Hdr.F {
						ls, lerr := libParsed(payloads[pi+1], c.AddDONL)
						if lerr != nil || ls != refRendered(np) {
							return ci, failf("call %d payload %d %s: H265Packet reads %s (%v), reference %s", callI, pi+1, hx(payloads[pi+1]), ls, lerr, refRendered(np))
						}
					}
					train = append(train, np)
					pi++
				}
				lastFU := train[len(train)-1]
				uh := h265rtp.Hdr{F: rp.Hdr.F, Type: rp.FuType, LayerID: rp.Hdr.LayerID, TID: rp.Hdr.TID}
				for k, f := range train {
					if f.FuType != rp.FuType || f.Hdr != rp.Hdr {
						return ci, failf("%s: FU %d of the train changes FuType/F/layer/TID", what, k)
					}
					if k > 0 && k < len(train)-1 && f.E {
						return ci, failf("%s: E on a middle FU", what)
					}
				}
				var body []byte
				for _, f := range train {
					body = append(body, f.Fragment...)
				}
				hb := uh.Bytes()
				unit := append([]byte{hb[0], hb[1]}, body...)
				if len(train) == 1 && !lastFU.E {
					// one FU carrying S only
					if idx := len(got); idx < len(want) && bytes.Equal(unit, want[idx]) {
						if e := r.finding("F18-h265-single-fu-without-e", "%s: a %d-byte unit (MTU %d) is 'fragmented' into a single FU with S and never E", what, len(unit), mtu); e != nil {
							return ci, e
						}
						got = append(got, unit)

						continue
					}

					return ci, failf("%s: FU train of one fragment without E", what)
				}
				if !lastFU.E {
					return ci, failf("%s: FU train of %d fragments is not closed by E", what, len(train))
				}
				if len(train) < 2 {
					return ci, failf("%s: S and E on the same FU", what)
				}
				if c.AddDONL {
					if idx := len(got); idx < len(want) && !bytes.Equal(unit, want[idx]) {
						// known defect F19: a DONL in every FU, not only in the first
						var body2 []byte
						ok := true
						for k, f := range train {
							fr := f.Fragment
							if k > 0 {
								if len(fr) < 2 {
									ok = false

									break
								}
								fr = fr[2:]
							}
							body2 = append(body2, fr...)
						}
						if ok && bytes.Equal(append([]byte{hb[0], hb[1]}, body2...), want[idx]) {
							if e := r.finding("F19-h265-donl-in-every-fu", "%s: with AddDONL every FU of a fragmented unit carries a DONL field (RFC 7798 4.4.3: only the first); a conforming receiver reads the extra fields as payload", what); e != nil {
								return ci, e
							}
							f19 = true
							got = append(got, want[idx])

							continue
						}
					}
				}
				got = append(got, unit)
			default:
				return ci, failf("%s: unexpected PACI packet", what)
			}
		}
		_ = f19
		if !equalUnits(got, want) {
			return ci, failf("call %d (mtu %d, donl %v, skipAgg %v): reassembled units differ from the input:\n got:  %s\n want: %s", callI, mtu, c.AddDONL, c.SkipAggregation, unitList(got), unitList(want))
		}
		if hasAP && hasFU {
			ci.class("ap-and-fu")
			ci.Nontrivial = true
		}
	}
	for k, kp := range kept {
		if now, err := renderH265(kp.pkt); err != nil || now != kp.rendered {
			return ci, failf("what Packet() returned for payload %d of the stream reads differently after the %d later payloads were decoded by the same H265Packet:\n now:  %s (%v)\n then: %s", k, len(kept)-1-k, now, err, kp.rendered)
		}
	}
	if streamed >= 2 {
		ci.class("stream-through-one-H265Packet")
	}

	return ci, nil
}

// H265DecCase: one payload built by the independent encoder, optionally cut.
type H265DecCase struct {
	Kind    string   `json:"kind"` // single | ap | fu | paci
	DONL    bool     `json:"donl"`
	Units   []HNAL   `json:"units"`
	DONLVal uint16   `json:"donl_val"`
	DONDs   []uint8  `json:"donds"`
	FUPos   string   `json:"fu_pos"` // start | middle | end
	FULen   int      `json:"fu_len"`
	A       bool     `json:"a"`
	CType   uint8    `json:"ctype"`
	PHSsize uint8    `json:"phssize"`
	F0      bool     `json:"f0"`
	F1      bool     `json:"f1"`
	F2      bool     `json:"f2"`
	Y       bool     `json:"y"`
	PHES    HexBytes `json:"phes"`
	Cut     int      `json:"cut"` // -1 = whole
	// Pre: payloads decoded earlier through the SAME H265Packet (results ignored); the reading of this one must not depend on them
	Pre []H265DecCase `json:"pre,omitempty"`
}

func (c *H265DecCase) build() (payload []byte, required int) {
	var dv *uint16
	if c.DONL {
		v := c.DONLVal
		dv = &v
	}
	switch c.Kind {
	case "single":
		n := c.Units[0].nal()
		required = 3
		if c.DONL {
			required = 5
		}

		return h265rtp.Single(n, dv), required
	case "ap":
		var nals [][]byte
		for i := range c.Units {
			nals = append(nals, c.Units[i].nal())
		}
		required = 2 + 2 + len(nals[0]) + 2 + len(nals[1])
		if c.DONL {
			required += 3
		}

		return h265rtp.AP(nals, dv, c.DONDs), required
	case "fu":
		n := c.Units[0].nal()
		body := n[2:]
		fl := c.FULen
		if fl > len(body)-2 {
			fl = len(body) - 2
		}
		if fl < 1 {
			fl = 1
		}
		// three fragments: [1 .. ] choose which one to present
		sizes := []int{1, fl, len(body) - 1 - fl}
		if sizes[2] < 1 {
			sizes = []int{1, len(body) - 1}
		}
		fus := h265rtp.FU(n, sizes, dv)
		idx := 0
		switch c.FUPos {
		case "middle":
			idx = 1
			if len(fus) == 2 {
				idx = 1
			}
		case "end":
			idx = len(fus) - 1
		}
		required = 4
		if c.DONL && idx == 0 {
			required = 6
		}

		return fus[idx], required
	default:
		n := c.Units[0].nal()
		h := h265rtp.ParseHdr(n)
		phes := c.PHES
		required = 4 + int(c.PHSsize) + 1

		return h265rtp.PACI(h, c.A, c.CType, c.PHSsize, c.F0, c.F1, c.F2, c.Y, phes, n[2:]), required
	}
}

func checkC14Dec(r *run, c *H265DecCase) (CaseInfo, error) {
	var ci CaseInfo
	full, required := c.build()
	in := full
	if c.Cut >= 0 && c.Cut < len(full) {
		in = full[:c.Cut]
		ci.class("dec-truncated")
	}
	ci.class("dec:" + c.Kind)
	if c.DONL {
		ci.class("dec-donl")
	}
	ci.Nontrivial = (c.Kind == "ap" && len(c.Units) >= 3 && c.DONL) || (c.Kind == "paci" && c.F0 && c.PHSsize >= 3) || len(in) < len(full)
	var hp codecs.H265Packet
	hp.WithDONL(c.DONL)
	for i := range c.Pre {
		pre, _ := c.Pre[i].build()
		if k := c.Pre[i].Cut; k >= 0 && k < len(pre) {
			pre = pre[:k]
		}
		_, _ = hp.Unmarshal(pre)
		ci.class("dec-after-" + c.Pre[i].Kind)
	}
	ls, lerr := libParsedWith(&hp, in)
	if len(in) < required {
		if lerr == nil {
			return ci, failf("%s payload %s cut to %d bytes (the form needs %d) is accepted as %s", c.Kind, hx(full), len(in), required, ls)
		}

		return ci, nil
	}
	if lerr != nil {
		return ci, failf("well-formed %s payload %s (donl %v) rejected: %v", c.Kind, hx(in), c.DONL, lerr)
	}
	// expected reading: the reference parse of the (possibly cut) payload; for an AP
	// cut inside a later unit the complete units before the cut.
	var rp *h265rtp.Payload
	var err error
	if c.Kind == "ap" && len(in) < len(full) {
		// find the longest prefix that is a whole number of aggregation units
		for k := len(in); k >= required; k-- {
			if rp, err = h265rtp.Parse(in[:k], c.DONL); err == nil {
				break
			}
		}
	} else {
		rp, err = h265rtp.Parse(in, c.DONL)
	}
	if err != nil || rp == nil {
		return ci, failf("harness bug: reference parser rejects reference payload %s: %v", hx(in), err)
	}
	if rs := refRendered(rp); ls != rs {
		if c.Kind == "paci" && c.F0 && c.PHSsize >= 3 {
			// everything but the TSCI part equal?
			cut := func(s string) string {
				for i := 0; i+5 <= len(s); i++ {
					if s[i:i+5] == " tsci" {
						return s[:i]
					}
				}

				return s
			}
			if cut(ls) == cut(rs) {
				if e := r.finding("F20-h265-tsci-misassembled", "PACI with TSCI, PHES %s: H265Packet reports%s, the extension holds%s", hx(rp.PHES[:3]), ls[len(cut(ls)):], rs[len(cut(rs)):]); e != nil {
					return ci, e
				}

				return ci, nil
			}
		}

		return ci, failf("%s payload %s (donl %v): H265Packet reads\n  %s\nwant\n  %s", c.Kind, hx(in), c.DONL, ls, rs)
	}
	if head := (&codecs.H265Packet{}).IsPartitionHead(in); head != (rp.Kind != "fu" || rp.S) {
		return ci, failf("%s payload %s: IsPartitionHead=%v", c.Kind, hx(in), head)
	}

	return ci, nil
}

// H265AccCase: exhaustive accessor domains. Kind: hdr (16 bit), fu (8 bit), paci (16 bit), tsci (24 bit).
type H265AccCase struct {
	Kind string `json:"kind"`
	V    uint32 `json:"v"`
}

func checkC14Acc(r *run, c *H265AccCase) (CaseInfo, error) {
	var ci CaseInfo
	ci.Nontrivial = true
	switch c.Kind {
	case "hdr":
		v := uint16(c.V)
		h := codecs.H265NALUHeader(v)
		ref := h265rtp.ParseHdr([]byte{byte(v >> 8), byte(v)})
		if h.F() != ref.F || h.Type() != ref.Type || h.LayerID() != ref.LayerID || h.TID() != ref.TID ||
			h.IsAggregationPacket() != (ref.Type == 48) || h.IsFragmentationUnit() != (ref.Type == 49) || h.IsPACIPacket() != (ref.Type == 50) ||
			h.IsTypeVCLUnit() != (ref.Type < 32) {
			return ci, failf("H265NALUHeader(%#04x): F%v t%d l%d tid%d, want F%v t%d l%d tid%d", v, h.F(), h.Type(), h.LayerID(), h.TID(), ref.F, ref.Type, ref.LayerID, ref.TID)
		}
	case "fu":
		v := uint8(c.V)
		h := codecs.H265FragmentationUnitHeader(v)
		if h.S() != (v&0x80 != 0) || h.E() != (v&0x40 != 0) || h.FuType() != v&0x3F {
			return ci, failf("H265FragmentationUnitHeader(%#02x): S%v E%v type %d", v, h.S(), h.E(), h.FuType())
		}
	case "paci":
		v := uint16(c.V)
		phs := int(v >> 4 & 0x1F)
		p := []byte{50 << 1, 1, byte(v >> 8), byte(v)}
		for i := 0; i < phs; i++ {
			p = append(p, byte(0xA0+i))
		}
		p = append(p, 0x77)
		var x codecs.H265PACIPacket
		if _, err := x.Unmarshal(p); err != nil {
			return ci, failf("PACI %s rejected: %v", hx(p), err)
		}
		if x.A() != (v&0x8000 != 0) || x.CType() != uint8(v>>9&0x3F) || int(x.PHSsize()) != phs || x.F0() != (v&8 != 0) || x.F1() != (v&4 != 0) || x.F2() != (v&2 != 0) || x.Y() != (v&1 != 0) ||
			!bytes.Equal(x.PHES(), p[4:4+phs]) || !bytes.Equal(x.Payload(), []byte{0x77}) {
			return ci, failf("PACI fields %#04x: A%v c%d phs%d F0%v F1%v F2%v Y%v phes %x payload %x", v, x.A(), x.CType(), x.PHSsize(), x.F0(), x.F1(), x.F2(), x.Y(), x.PHES(), x.Payload())
		}
	case "tsci":
		b0, b1, b2 := byte(c.V>>16), byte(c.V>>8), byte(c.V)
		p := []byte{50 << 1, 1, 0x00, 0x38, b0, b1, b2, 0x77} // PHSsize 3, F0=1
		var x codecs.H265PACIPacket
		if _, err := x.Unmarshal(p); err != nil {
			return ci, failf("PACI %s rejected: %v", hx(p), err)
		}
		t := x.TSCI()
		if t == nil {
			return ci, failf("PACI %s: TSCI() is nil with F0=1 and PHSsize=3", hx(p))
		}
		if t.TL0PICIDX() != b0 || t.IrapPicID() != b1 || t.S() != (b2&0x80 != 0) || t.E() != (b2&0x40 != 0) || t.RES() != b2&0x3F {
			if t.TL0PICIDX() == 0 && t.IrapPicID() == b0 && t.RES() == b1&0x3F {
				if e := r.finding("F20-h265-tsci-misassembled", "TSCI %02x %02x %02x: TL0PICIDX %d IrapPicID %d S%v E%v RES %d (the three octets are assembled into bits 23..0 while the accessors read bits 31..8)", b0, b1, b2, t.TL0PICIDX(), t.IrapPicID(), t.S(), t.E(), t.RES()); e != nil {
					return ci, e
				}

				return ci, nil
			}

			return ci, failf("TSCI %02x %02x %02x: TL0PICIDX %d IrapPicID %d S%v E%v RES %d", b0, b1, b2, t.TL0PICIDX(), t.IrapPicID(), t.S(), t.E(), t.RES())
		}
	}

	return ci, nil
}

func genHNAL(t *rapid.T, mtu int, donl bool, allowF bool) HNAL {
	n := HNAL{
		Type:  uint8(rapid.OneOf(rapid.IntRange(0, 47), rapid.SampledFrom([]int{1, 19, 20, 32, 33, 34, 39, 0, 47})).Draw(t, "type")),
		Layer: uint8(biased(t, "layer", 0, 63, 0, 1, 62, 63)), TID: uint8(rapid.IntRange(1, 7).Draw(t, "tid")),
		Seed: rapid.Uint64().Draw(t, "seed"), StartCode: rapid.SampledFrom([]int{3, 4}).Draw(t, "sc"),
	}
	if allowF && rapid.IntRange(0, 15).Draw(t, "fbit") == 0 {
		n.F = true
	}
	fu := mtu - 3
	if donl {
		fu -= 2
	}
	if fu < 1 {
		fu = 1
	}
	sp := append([]int{3, 4, 5, 6}, around(4, mtu)...)
	sp = append(sp, around(1, 2+fu, 2+2*fu, 2+3*fu)...)
	n.Len = biased(t, "len", 3, mini(3000, maxi(40, 4*mtu)), sp...)

	return n
}

func genH265PayCase(t *rapid.T) *H265PayCase {
	c := &H265PayCase{AddDONL: genBool(t, "donl"), SkipAggregation: rapid.IntRange(0, 3).Draw(t, "skipagg") == 0}
	lo := 4
	if c.AddDONL {
		lo = 6
	}
	c.MTU = uint16(biased(t, "mtu", lo, 1500, lo, lo+1, lo+2, lo+3, 10, 12, 16, 40, 100, 1188, 1200))
	if rapid.IntRange(0, 19).Draw(t, "hugemtu") == 0 {
		c.MTU = uint16(rapid.IntRange(1501, 65535).Draw(t, "mtuhuge"))
	}
	ncalls := rapid.IntRange(1, 2).Draw(t, "ncalls")
	for k := 0; k < ncalls; k++ {
		nu := rapid.IntRange(1, 6).Draw(t, "nunits")
		var units []HNAL
		for i := 0; i < nu; i++ {
			units = append(units, genHNAL(t, int(c.MTU), c.AddDONL, true))
		}
		c.Calls = append(c.Calls, units)
		c.Lead = append(c.Lead, rapid.SampledFrom([]int{0, 0, 0, 1, 2, 3}).Draw(t, "lead"))
	}
	if rapid.IntRange(0, 9).Draw(t, "manysmall") == 6 {
		// an access unit of many small units (VPS, SPS, PPS, SEIs, slice segments): 7-40 of them, a few bytes each,
		// at an MTU that lets many share one aggregation packet
		c.MTU = uint16(rapid.SampledFrom([]int{100, 300, 1200, 9000}).Draw(t, "manymtu"))
		var units []HNAL
		for i, k := 0, rapid.SampledFrom([]int{7, 8, 9, 10, 16, 17, 32, 33, 40}).Draw(t, "manyk"); i < k; i++ {
			u := genHNAL(t, int(c.MTU), c.AddDONL, false)
			u.Len = rapid.IntRange(3, 9).Draw(t, "manylen")
			units = append(units, u)
		}
		c.Calls = [][]HNAL{units}

		return c
	}
	if rapid.IntRange(0, 59).Draw(t, "jumbo") == 0 {
		c.MTU = uint16(rapid.SampledFrom([]int{1200, 1500, 9000, 40000, 65535}).Draw(t, "jumbomtu"))
		call := c.Calls[rapid.IntRange(0, len(c.Calls)-1).Draw(t, "jumbocall")]
		call[rapid.IntRange(0, len(call)-1).Draw(t, "jumbounit")].Len = rapid.SampledFrom([]int{65530, 65531, 65532, 65533, 65534, 65535, 65536, 65537, 65540, 65636, 70000, 131072}).Draw(t, "jumbolen")
	}

	return c
}

func genH265DecCase(t *rapid.T) *H265DecCase {
	c := genH265DecCase1(t)
	if rapid.IntRange(0, 1).Draw(t, "withpre") == 1 {
		for i, k := 0, rapid.IntRange(1, 3).Draw(t, "npre"); i < k; i++ {
			pre := genH265DecCase1(t)
			pre.DONL = c.DONL
			c.Pre = append(c.Pre, *pre)
		}
	}

	return c
}

func genH265DecCase1(t *rapid.T) *H265DecCase {
	c := &H265DecCase{Kind: rapid.SampledFrom([]string{"single", "ap", "ap", "fu", "paci", "paci"}).Draw(t, "kind"), DONL: genBool(t, "donl"), Cut: -1}
	c.DONLVal = genU16(t, "donlval")
	small := func() HNAL {
		n := genHNAL(t, 30, false, false)
		n.Len = biased(t, "slen", 3, 40, 3, 4, 5)

		return n
	}
	switch c.Kind {
	case "ap":
		k := rapid.IntRange(2, 6).Draw(t, "napunits")
		if rapid.IntRange(0, 19).Draw(t, "manyap") == 0 {
			k = rapid.IntRange(7, 40).Draw(t, "napunitsmany")
		}
		for i := 0; i < k; i++ {
			c.Units = append(c.Units, small())
			if rapid.IntRange(0, 59).Draw(t, "bigapunit") == 0 {
				c.Units[len(c.Units)-1].Len = rapid.SampledFrom([]int{255, 256, 257, 4000, 32767, 32768, 65535}).Draw(t, "bigapunitlen")
			}
			if i > 0 {
				c.DONDs = append(c.DONDs, rapid.Byte().Draw(t, "dond"))
			}
		}
	case "fu":
		n := small()
		if n.Len < 5 {
			n.Len = 5
		}
		c.Units = []HNAL{n}
		c.FUPos = rapid.SampledFrom([]string{"start", "middle", "end"}).Draw(t, "fupos")
		c.FULen = rapid.IntRange(1, 30).Draw(t, "fulen")
	case "paci":
		c.Units = []HNAL{small()}
		c.A, c.F0, c.F1, c.F2, c.Y = genBool(t, "a"), rapid.IntRange(0, 2).Draw(t, "f0") != 0, genBool(t, "f1"), genBool(t, "f2"), genBool(t, "y")
		c.CType = uint8(rapid.IntRange(0, 63).Draw(t, "ctype"))
		c.PHSsize = uint8(biased(t, "phssize", 0, 31, 0, 1, 2, 3, 4, 31))
		c.PHES = genBytesN(t, "phes", int(c.PHSsize))
		if c.PHES == nil {
			c.PHES = []byte{}
		}
	default:
		c.Units = []HNAL{small()}
	}
	if rapid.IntRange(0, 2).Draw(t, "docut") == 0 {
		full, _ := c.build()
		c.Cut = rapid.IntRange(0, len(full)).Draw(t, "cut")
	}

	return c
}

const ruleC14 = "payloader: 1-2 calls of 1-6 (one case in ten: one call of 7-40 small) HEVC NAL units (types 0-47, layer 0-63, TID 1-7, F=1 rarely, sizes 3 bytes to several MTUs biased to MTU-4..MTU+4 and 2+k*(MTU-3)+-1 (one case in 60 holds a unit of 65530-131072 bytes), bodies free of start-code emulation, one unit in four ending in 00 00 03; 0-3 zero bytes in front of the first start code of a call), MTU >= 4 (>= 6 with DONL) biased to the floor and small values, SkipAggregation x AddDONL; every payload is parsed by an independent RFC 7798 parser and by H265Packet (all accessors must agree): <= MTU, single = unit (+DONL), AP type 48/F=0/min layer/min TID/>=2 units, FU trains >=2 with S/E placement and FuType/F/layer/TID preserved, DONL placement, IsPartitionHead, byte-exact reassembly. decoder: reference-built single/AP(2-6 units)/FU(start,middle,end)/PACI(+TSCI) payloads with and without DONL/DOND and every truncation: too-short ones rejected, others read field by field as the reference parser; half of the cases decode 1-3 other payloads through the same H265Packet first, and the payloader check decodes every stream through one H265Packet besides a fresh one per payload (readings must agree, and what Packet() returned for earlier payloads must still read the same at the end). accessors: all 2^16 payload headers, 2^8 FU headers, 2^16 PACI field words, TSCI triples (2^24 in thorough). Non-trivial = AP together with an FU train, unit length within the single-packet threshold window, AP>=3 units with DONL, PACI with TSCI, truncation, every accessor value; distinct = FNV-64 of the JSON case"

func TestC14(t *testing.T) {
	r := begin(t, "C14", "exploration", ruleC14)
	defer r.finish()
	subC14Pay.rapidRun(r, n(12000, 450000), genH265PayCase)
	subC14Dec.rapidRun(r, n(15000, 450000), genH265DecCase)
	// accessor enumerations
	type dom struct {
		kind string
		size int
		name string
	}
	doms := []dom{{"hdr", 1 << 16, "all 2^16 payload headers"}, {"fu", 1 << 8, "all 2^8 FU headers"}, {"paci", 1 << 16, "all 2^16 PACI field words"}}
	if thorough() {
		doms = append(doms, dom{"tsci", 1 << 24, "all 2^24 TSCI triples"})
	} else {
		doms = append(doms, dom{"tsci", 1 << 16, "TSCI triples: 2^16 spread values (x257)"})
	}
	for _, d := range doms {
		var total int64
		ok := true
		for v := 0; v < d.size && ok; v++ {
			if !mine(v) {
				continue
			}
			val := uint32(v)
			if d.kind == "tsci" && !thorough() {
				val = uint32(v) * 257 & 0xFFFFFF
			}
			c := &H265AccCase{Kind: d.kind, V: val}
			if _, err := subC14Acc.exec(r, c); err != nil {
				subC14Acc.one(r, c)
				ok = false
			}
			total++
		}
		if !ok {
			return
		}
		r.col.Bulk("accessors", total, total, map[string]int64{"enum:" + d.kind: total})
		if d.kind != "tsci" || thorough() {
			r.col.Exhaustive("C14 "+d.name, envShards == 1)
		}
	}
}
