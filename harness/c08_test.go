package harness

// C08 — Payloaders respect the MTU, never panic, and neither modify nor retain the input.

import (
	"bytes"
	"fmt"
	"strings"
	"testing"

	"github.com/pion/rtp"
	"github.com/pion/rtp/codecs"
	"pgregory.net/rapid"

	"verifharness/ref/leb128"
	"verifharness/ref/vp9hdr"
)

type PayCall struct {
	MTU  uint16   `json:"mtu"`
	Nil  bool     `json:"nil"`
	Data HexBytes `json:"data"`
}

type PayGenericCase struct {
	Payloader string    `json:"payloader"`
	Calls     []PayCall `json:"calls"`
	// Warm: one-byte frames sent first (MTU 100) to advance a running counter kept by the payloader (VP8/VP9
	// picture ids: the descriptor grows at id 128, the counter wraps at 32768)
	Warm int `json:"warm,omitempty"`
}

var subC08 = register("C08", "payloaders", checkC08)

var c08Payloaders = []string{"g711", "g722", "opus", "h264", "h264nostap", "h265", "h265donl", "h265skip", "h265donlskip", "vp8", "vp8pid", "vp9flex", "vp9nonflex", "av1"}

func newPayloader(name string) rtp.Payloader {
	switch name {
	case "h265donl":
		return &codecs.H265Payloader{AddDONL: true}
	case "h265skip":
		return &codecs.H265Payloader{SkipAggregation: true}
	case "h265donlskip":
		return &codecs.H265Payloader{AddDONL: true, SkipAggregation: true}
	case "vp9nonflex":
		return &codecs.VP9Payloader{InitialPictureIDFn: func() uint16 { return 32766 }}
	case "vp9flex":
		return &codecs.VP9Payloader{FlexibleMode: true, InitialPictureIDFn: func() uint16 { return 32766 }}
	default:
		return makePayloader(name)
	}
}

const guardLen = 8

// arena places data between guard bytes with spare capacity behind it, so that a
// payloader that appends to or writes around its input is detected.
type arena struct {
	buf  []byte
	data []byte // buf[guardLen : guardLen+n], capacity reaching over the rear guard and the spare area
	save []byte
}

func newArena(data []byte) *arena {
	a := &arena{buf: make([]byte, guardLen+len(data)+guardLen+32)}
	for i := range a.buf {
		a.buf[i] = 0xA5
	}
	copy(a.buf[guardLen:], data)
	a.data = a.buf[guardLen : guardLen+len(data)]
	a.save = clone(a.buf)

	return a
}

func (a *arena) intact() bool { return bytes.Equal(a.buf, a.save) }

func (a *arena) scribble() {
	for i := range a.buf {
		a.buf[i] ^= 0xFF
	}
}

func deepCopy(f [][]byte) [][]byte {
	if f == nil {
		return nil
	}
	out := make([][]byte, len(f))
	for i := range f {
		out[i] = clone(f[i])
		if out[i] == nil && f[i] != nil {
			out[i] = []byte{}
		}
	}

	return out
}

func sameFrags(a, b [][]byte) bool {
	if len(a) != len(b) {
		return false
	}
	for i := range a {
		if !bytes.Equal(a[i], b[i]) {
			return false
		}
	}

	return true
}

func fragSummary(f [][]byte) string {
	s := fmt.Sprintf("%d fragments", len(f))
	for i, x := range f {
		if i >= 6 {
			s += " …"

			break
		}
		s += " " + hx(x)
	}

	return s
}

func checkC08(r *run, c *PayGenericCase) (CaseInfo, error) {
	var ci CaseInfo
	ci.class("payloader:" + c.Payloader)
	prim := newPayloader(c.Payloader)
	twin := newPayloader(c.Payloader)
	type past struct {
		live [][]byte // what the primary returned (possibly aliasing its input)
		snap [][]byte // deep copy taken when it returned
		call int
	}
	var history []past
	retained := false
	for i := 0; i < c.Warm; i++ {
		prim.Payload(100, []byte{0x10})
		twin.Payload(100, []byte{0x10})
	}
	if c.Warm > 0 {
		ci.class("warmed-up")
	}
	for i, call := range c.Calls {
		var in []byte
		var ar *arena
		if !call.Nil {
			ar = newArena(call.Data)
			in = ar.data
		}
		twinIn := clone(call.Data)
		if !call.Nil && twinIn == nil {
			twinIn = []byte{}
		}
		if call.Nil {
			twinIn = nil
		}
		what := lazy(func() string {
			return fmt.Sprintf("%s call %d/%d Payload(mtu %d, %s)", c.Payloader, i, len(c.Calls), call.MTU, hx(call.Data))
		})
		out := prim.Payload(call.MTU, in)
		snap := deepCopy(out)
		// fragments are the caller's, capacity included (append writes there): that must not reach another fragment
		for _, f := range out {
			for k, full := len(f), f[:cap(f)]; k < len(full); k++ {
				full[k] ^= 0xFF
			}
		}
		if !sameFrags(out, snap) {
			return ci, failf("%s call %d: writing into the spare capacity of the returned fragments changed other fragments", c.Payloader, i)
		}
		if ar != nil && !ar.intact() {
			return ci, failf("%s: the caller's buffer (or the memory around it) was modified", what)
		}
		for k, f := range out {
			if c.Payloader != "opus" && len(f) > int(call.MTU) {
				return ci, failf("%s: fragment %d is %d bytes long", what, k, len(f))
			}
			if len(call.Data) > 0 && len(f) == 0 {
				return ci, failf("%s: fragment %d is empty although the input is not", what, k)
			}
		}
		if c.Payloader == "opus" && len(call.Data) > 0 && (len(snap) != 1 || !bytes.Equal(snap[0], call.Data)) {
			return ci, failf("%s: Opus ignores the MTU and returns the input as one fragment, got %s", what, fragSummary(snap))
		}
		tout := twin.Payload(call.MTU, twinIn)
		if !sameFrags(snap, tout) {
			// the twin saw exactly the same call sequence on pristine buffers: a difference
			// means state retained from an earlier, since overwritten, input buffer
			key := "retained-input"
			switch {
			case c.Payloader == "h264" && retained:
				key = "F10-h264-sps-pps-alias-input"
			}
			if e := r.finding(key, "%s: output differs from a twin instance fed pristine copies of the same calls (the earlier input buffers of this instance were overwritten after each call returned):\n this: %s\n twin: %s", what, fragSummary(snap), fragSummary(tout)); e != nil {
				return ci, e
			}

			return ci, nil
		}
		if len(out) > 0 {
			ci.Nontrivial = true
		}
		if len(out) >= 2 {
			ci.class("multi-fragment")
		}
		if call.MTU <= 12 {
			ci.class("mtu<=12")
		}
		// overwrite this call's input buffer; everything returned so far must stay put
		if ar != nil {
			ar.scribble()
			retained = true
		}
		history = append(history, past{live: out, snap: snap, call: i})
		for _, h := range history {
			if !sameFrags(h.live, h.snap) {
				key := "fragment-aliases-input"
				if len(c.Payloader) >= 4 && c.Payloader[:4] == "h265" {
					key = "F11-h265-fragment-aliases-input"
				}
				if e := r.finding(key, "%s: fragments returned by call %d changed when the caller's input buffer was overwritten after the call:\n before: %s\n after:  %s", what, h.call, fragSummary(h.snap), fragSummary(h.live)); e != nil {
					return ci, e
				}

				return ci, nil
			}
		}
		if i > 0 && len(out) > 0 {
			ci.class("later-call-after-scribble")
		}
	}

	return ci, nil
}

// ---- input grammars

func genAnnexB(t *rapid.T, h265 bool) []byte {
	var out []byte
	if genBool(t, "leadzero") {
		out = append(out, 0)
	}
	k := rapid.IntRange(1, 5).Draw(t, "nnal")
	for i := 0; i < k; i++ {
		if genBool(t, "sc4") {
			out = append(out, 0)
		}
		out = append(out, 0, 0, 1)
		l := biased(t, "nallen", 0, 120, 0, 1, 2, 3)
		body := genBytesN(t, "nalbody", l)
		if l > 0 {
			if h265 {
				body[0] = rapid.SampledFrom([]uint8{0x40, 0x42, 0x44, 0x26, 0x02, 0x62, 0x60, 0x64, 0x80}).Draw(t, "hdr0")
			} else {
				body[0] = rapid.SampledFrom([]uint8{0x67, 0x68, 0x65, 0x41, 0x09, 0x0C, 0x06, 0x78, 0x7C, 0x27, 0x28}).Draw(t, "hdr0")
			}
		}
		out = append(out, body...)
	}
	if genBool(t, "trailsc") {
		out = append(out, 0, 0, 1)
	}

	return out
}

func genOBUStream(t *rapid.T) []byte {
	var out []byte
	k := rapid.IntRange(1, 5).Draw(t, "nobu")
	for i := 0; i < k; i++ {
		typ := rapid.SampledFrom([]uint8{1, 2, 3, 6, 8, 15, 5}).Draw(t, "otype")
		ext := genBool(t, "oext")
		size := genBool(t, "osize") || i < k-1
		h := typ << 3
		if ext {
			h |= 4
		}
		if size {
			h |= 2
		}
		out = append(out, h)
		if ext {
			out = append(out, rapid.Byte().Draw(t, "oextb"))
		}
		l := biased(t, "olen", 0, 150, 0, 1, 127, 128)
		if size {
			decl := l
			if rapid.IntRange(0, 7).Draw(t, "lie") == 0 {
				decl = l + rapid.IntRange(-2, 300).Draw(t, "liedelta")
				if decl < 0 {
					decl = 0
				}
			}
			if rapid.IntRange(0, 9).Draw(t, "longsize") == 4 {
				// an over-long size field: 5-11 groups, all value bits set in the upper ones (2^35 .. beyond 2^63)
				for q, nn := 0, rapid.IntRange(4, 10).Draw(t, "longsizen"); q < nn; q++ {
					out = append(out, rapid.SampledFrom([]uint8{0xFF, 0x80, 0x81, 0xC0}).Draw(t, "longsizeb"))
				}
				out = append(out, rapid.SampledFrom([]uint8{0x01, 0x7F, 0x00, 0x02}).Draw(t, "longsizet"))
			} else {
				out = append(out, leb128.Encode(uint64(decl))...)
			}
		}
		out = append(out, genBytesN(t, "obody", l)...)
	}

	return out
}

func genVP9FrameBytes(t *rapid.T) []byte {
	h := genVP9Hdr(t, 0)
	hb, _ := vp9hdr.Write(&h)
	l := rapid.IntRange(0, 200).Draw(t, "vp9body")

	return append(hb, genBytesN(t, "vp9bytes", l)...)
}

func genPayInput(t *rapid.T, payloader string) []byte {
	var b []byte
	switch rapid.IntRange(0, 5).Draw(t, "inkind") {
	case 0:
		return rapid.SliceOfN(rapid.Byte(), 0, 24).Draw(t, "rand")
	case 1:
		return genBytesN(t, "bulk", rapid.IntRange(0, 1500).Draw(t, "bulklen"))
	default:
		switch {
		case len(payloader) >= 4 && payloader[:4] == "h264":
			b = genAnnexB(t, false)
		case len(payloader) >= 4 && payloader[:4] == "h265":
			b = genAnnexB(t, true)
		case payloader == "av1":
			b = genOBUStream(t)
		case len(payloader) >= 3 && payloader[:3] == "vp9":
			b = genVP9FrameBytes(t)
		default:
			b = genBytesN(t, "bulk2", rapid.IntRange(1, 600).Draw(t, "bulk2len"))
		}
	}
	if rapid.IntRange(0, 3).Draw(t, "mutate") == 0 {
		b = applyMuts(b, genMuts(t, 3, 16))
	}

	return b
}

func genPayGenericCase(t *rapid.T) *PayGenericCase {
	c := &PayGenericCase{Payloader: rapid.SampledFrom(c08Payloaders).Draw(t, "payloader")}
	if (c.Payloader == "vp8pid" || c.Payloader == "vp9flex" || c.Payloader == "vp9nonflex") && rapid.IntRange(0, 3).Draw(t, "warm") == 0 {
		c.Warm = rapid.SampledFrom([]int{1, 124, 125, 126, 127, 128, 129, 255, 256, 32765, 32766, 32767, 32768}).Draw(t, "warmn")
	}
	ncalls := rapid.IntRange(1, 4).Draw(t, "ncalls")
	mtu0 := uint16(biased(t, "mtu", 0, 65535, 0, 1, 2, 3, 4, 5, 6, 7, 8, 9, 10, 11, 12, 13, 14, 15, 16, 100, 1200, 65535))
	for i := 0; i < ncalls; i++ {
		call := PayCall{MTU: mtu0}
		if rapid.IntRange(0, 4).Draw(t, "newmtu") == 0 {
			call.MTU = uint16(biased(t, "mtu2", 0, 65535, 0, 1, 2, 3, 4, 5, 6, 8, 12, 16, 100, 1200))
		}
		switch rapid.IntRange(0, 11).Draw(t, "datakind") {
		case 0:
			call.Nil = true
		case 1:
			call.Data = []byte{}
		default:
			call.Data = genPayInput(t, c.Payloader)
			if call.Data == nil {
				call.Data = []byte{}
			}
		}
		if c.Payloader == "av1" && !call.Nil && rapid.IntRange(0, 3).Draw(t, "av1edge") == 0 {
			// OBU streams that put the free space of a packet on a LEB128 boundary (see C13)
			ec := genAV1EdgeCase(t)
			call.MTU, call.Data = ec.MTU, ec.input()
		}
		if !call.Nil && rapid.IntRange(0, 79).Draw(t, "jumbo") == 0 {
			// an input of 64 KiB or more (sizes that no longer fit 16 bits) with an MTU that keeps the fragment count small
			call.MTU = uint16(rapid.SampledFrom([]int{1200, 9000, 40000, 65535}).Draw(t, "jumbomtu"))
			n := rapid.SampledFrom([]int{65534, 65535, 65536, 65537, 65540, 65549, 70000, 131072}).Draw(t, "jumbolen")
			body := expand(rapid.Uint64().Draw(t, "jumboseed"), 0, n)
			for i := range body { // keep start codes out of the body
				if body[i] < 4 {
					body[i] |= 0x10
				}
			}
			switch {
			case strings.HasPrefix(c.Payloader, "h264"):
				body[0] = rapid.SampledFrom([]uint8{0x65, 0x67, 0x68, 0x41}).Draw(t, "jumbohdr")
				call.Data = append([]byte{0, 0, 0, 1}, body...)
				if body[0] == 0x67 {
					call.Data = append(call.Data, 0, 0, 1, 0x68, 0xCE, 0x3C, 0x80, 0, 0, 1, 0x65, 0x88, 0x84, 0x21)
				}
				if body[0] == 0x68 {
					call.Data = append([]byte{0, 0, 1, 0x67, 0x42, 0xC0, 0x1F}, call.Data...)
					call.Data = append(call.Data, 0, 0, 1, 0x65, 0x88, 0x84, 0x21)
				}
			case strings.HasPrefix(c.Payloader, "h265"):
				body[0], body[1] = 0x26, 0x01
				call.Data = append([]byte{0, 0, 0, 1}, body...)
				if genBool(t, "jumbomanyunits") {
					// several large units that each fit one packet: together more than 64 KiB pending for aggregation
					call.MTU = uint16(rapid.SampledFrom([]int{46000, 65535}).Draw(t, "jumbomanymtu"))
					call.Data = nil
					for u, k := 0, rapid.IntRange(2, 4).Draw(t, "jumbomanyk"); u < k; u++ {
						l := rapid.IntRange(20000, 45000).Draw(t, "jumbomanylen")
						unit := clone(body[:l])
						unit[0], unit[1] = rapid.SampledFrom([]uint8{0x26, 0x02, 0x40}).Draw(t, "jumbomanyhdr"), 0x01
						call.Data = append(append(call.Data, 0, 0, 1), unit...)
					}
				}
			case c.Payloader == "av1":
				body[0] = rapid.SampledFrom([]uint8{0x30, 0x34}).Draw(t, "jumboobu")
				call.Data = body
			case strings.HasPrefix(c.Payloader, "vp9"):
				body[0] = rapid.SampledFrom([]uint8{0x84, 0x86}).Draw(t, "jumbovp9")
				call.Data = body
			default:
				call.Data = body
			}
		}
		// bound the output to a few thousand fragments
		if m := int(call.MTU); m < 8 && len(call.Data) > 600 {
			call.Data = call.Data[:600]
		}
		c.Calls = append(c.Calls, call)
	}

	return c
}

const ruleC08 = "rapid draws a payloader (G711, G722, Opus, H264 +-STAP-A, H265 x {AddDONL} x {SkipAggregation}, VP8 +-picture id, VP9 flexible/non-flexible, AV1) and 1-4 calls on one instance (VP8 with picture ids and VP9: one case in four first sends 1-32768 one-byte frames so that the running picture id sits at 125-129 or at the 15-bit wrap): MTU 0-65535 biased to 0-16/100/1200/65535, input nil, empty, random, or grammar-seeded (Annex-B NAL sequences incl. SPS/PPS/AUD and trailing start codes, OBU streams with extension bytes and lying size fields (also 5-11-byte LEB128 size fields up to and beyond 2^63), VP9 frames with generated headers) optionally mutated, and (one call in 80) inputs of 65534-131072 bytes incl. a jumbo SPS/PPS followed by a slice, or (H265) 2-4 units of 20000-45000 bytes that each fit the MTU; inputs sit in an arena with guard bytes and spare capacity. Oracle: no panic, every fragment <= MTU (Opus exempt: exactly one fragment equal to the input at every MTU) and non-empty for non-empty input, arena untouched, fragments independent of each other's spare capacity, and the twin/scribble relation: after each call the input arena is overwritten, fragments returned earlier must not change and every later output must equal that of a twin instance fed pristine copies. Non-trivial = a call returned >=1 fragment; distinct = FNV-64 of the JSON case"

func TestC08(t *testing.T) {
	r := begin(t, "C08", "exploration", ruleC08)
	defer r.finish()
	subC08.rapidRun(r, n(25000, 400000), genPayGenericCase)
}
