package harness

// Shared machinery of all checks: environment (tier, seed, shard), the registry of
// pure check functions over explicit JSON-serialisable cases, the rapid runner, the
// replay writer/reader, known-findings gate and evidence recording.

import (
	"encoding/hex"
	"encoding/json"
	"errors"
	"flag"
	"fmt"
	"os"
	"path/filepath"
	"runtime/debug"
	"sort"
	"strconv"
	"strings"
	"sync"
	"testing"

	"pgregory.net/rapid"

	"verifharness/ev"
)

// ---------------------------------------------------------------- environment

var (
	envTier   = getenv("VERIF_TIER", "quick")
	envSeed   = seedFromEnv()
	envShard  = atoi(getenv("VERIF_SHARD", "0"))
	envShards = maxi(1, atoi(getenv("VERIF_SHARDS", "1")))
	envOut    = getenv("VERIF_OUT", "")
	envReplay = getenv("VERIF_REPLAY_DIR", "/verif/replays")
	envKnown  = getenv("VERIF_KNOWN", "/verif/known_findings.json")
	envScale  = atof(getenv("VERIF_SCALE", "1"))
)

func getenv(k, d string) string {
	if v, ok := os.LookupEnv(k); ok && v != "" {
		return v
	}

	return d
}

func atoi(s string) int {
	n, err := strconv.Atoi(strings.TrimSpace(s))
	if err != nil {
		return 0
	}

	return n
}

func atof(s string) float64 {
	f, err := strconv.ParseFloat(strings.TrimSpace(s), 64)
	if err != nil || f <= 0 {
		return 1
	}

	return f
}

func maxi(a, b int) int {
	if a > b {
		return a
	}

	return b
}

func mini(a, b int) int {
	if a < b {
		return a
	}

	return b
}

// seedFromEnv maps VERIF_SEED to a non-zero rapid seed (0 means "random" to rapid).
func seedFromEnv() int64 {
	s := getenv("VERIF_SEED", "1")
	n, err := strconv.ParseInt(strings.TrimSpace(s), 10, 64)
	if err != nil {
		n = 1
	}
	if n == 0 {
		n = 0x5EED5EED
	}
	if n < 0 {
		n = -n
	}

	return n
}

func thorough() bool { return envTier == "thorough" }

// n picks the per-process case count for the tier.
func n(quick, thor int) int {
	v := quick
	if thorough() {
		v = thor
	}
	v = int(float64(v) * envScale)
	if v < 1 {
		v = 1
	}

	return v
}

// mine reports whether enumeration index i belongs to this shard.
func mine(i int) bool { return i%envShards == envShard }

// ---------------------------------------------------------------- hex bytes

// HexBytes is a byte slice that serialises as a hex string (readable replays). A
// nil slice serialises as null and comes back nil.
type HexBytes []byte

func (h HexBytes) MarshalJSON() ([]byte, error) {
	if h == nil {
		return []byte("null"), nil
	}

	return json.Marshal(hex.EncodeToString(h))
}

func (h *HexBytes) UnmarshalJSON(b []byte) error {
	if string(b) == "null" {
		*h = nil

		return nil
	}
	var s string
	if err := json.Unmarshal(b, &s); err != nil {
		return err
	}
	d, err := hex.DecodeString(s)
	if err != nil {
		return err
	}
	if d == nil {
		d = []byte{}
	}
	*h = d

	return nil
}

func hx(b []byte) string {
	if b == nil {
		return "nil"
	}
	if len(b) > 48 {
		return fmt.Sprintf("%s…(%dB)", hex.EncodeToString(b[:48]), len(b))
	}

	return hex.EncodeToString(b)
}

func clone(b []byte) []byte {
	if b == nil {
		return nil
	}
	c := make([]byte, len(b))
	copy(c, b)

	return c
}

// ---------------------------------------------------------------- known findings

type knownFinding struct {
	Property string          `json:"property"`
	Key      string          `json:"key"`
	Status   string          `json:"status"` // "known" | "fixed"
	Commit   string          `json:"commit,omitempty"`
	What     string          `json:"what"`
	Sub      string          `json:"sub,omitempty"`
	Witness  json.RawMessage `json:"witness,omitempty"`
}

var (
	knownOnce sync.Once
	knownList []knownFinding
	knownSet  map[string]knownFinding
)

func loadKnown() {
	knownOnce.Do(func() {
		knownSet = map[string]knownFinding{}
		b, err := os.ReadFile(envKnown)
		if err != nil {
			return
		}
		var doc struct {
			Findings []knownFinding `json:"findings"`
		}
		if err := json.Unmarshal(b, &doc); err != nil {
			panic("known_findings.json: " + err.Error())
		}
		knownList = doc.Findings
		for _, k := range doc.Findings {
			if k.Status == "known" {
				knownSet[k.Property+"/"+k.Key] = k
			}
		}
	})
}

// findingErr is a failure attributed to a named root cause.
type findingErr struct {
	key string
	msg string
}

func (e *findingErr) Error() string { return "[" + e.key + "] " + e.msg }

// finding reports a failure that matches the narrow signature of root cause key.
// If key is listed as a known (unrepaired) finding the hit is counted and nil is
// returned so that the search continues behind it; otherwise it is an error like
// any other.
func (r *run) finding(key, format string, args ...any) error {
	loadKnown()
	msg := fmt.Sprintf(format, args...)
	if k, ok := knownSet[r.prop+"/"+key]; ok {
		r.col.Known(key, k.What)

		return nil
	}

	return &findingErr{key: key, msg: msg}
}

// ---------------------------------------------------------------- run

// run is the state of one property check in this process.
type run struct {
	t    *testing.T
	prop string
	col  *ev.Collector
}

var cur *run // one property per process invocation

var shrinkTime = "30s"

func begin(t *testing.T, prop, level, rule string) *run {
	t.Helper()
	loadKnown()
	r := &run{t: t, prop: prop, col: ev.New(prop, envTier, envSeed, envShard, envShards, level)}
	r.col.Rule = rule
	cur = r
	r.regress()

	return r
}

func (r *run) finish() {
	if envOut != "" {
		_ = os.MkdirAll(envOut, 0o755)
		p := filepath.Join(envOut, fmt.Sprintf("shard-%d.json", envShard))
		if err := r.col.Write(p); err != nil {
			r.t.Errorf("write evidence: %v", err)
		}
	}
	if r.col.Violations() > 0 {
		r.t.Fail()
	}
}

// ---------------------------------------------------------------- registry

// CaseInfo is what a check reports about the case it executed.
type CaseInfo struct {
	Nontrivial bool
	Classes    []string
}

func (ci *CaseInfo) class(s string) { ci.Classes = append(ci.Classes, s) }

type replayer interface {
	replay(raw json.RawMessage) (CaseInfo, error)
}

var registry = map[string]replayer{}

// Sub is one pure check function over an explicit case type.
type Sub[C any] struct {
	prop, name string
	check      func(r *run, c *C) (CaseInfo, error)
}

func register[C any](prop, name string, check func(r *run, c *C) (CaseInfo, error)) *Sub[C] {
	s := &Sub[C]{prop: prop, name: name, check: check}
	registry[prop+"/"+name] = s

	return s
}

// exec runs the check with panic recovery. Panics of the code under test are
// failures of the property (every property here includes "does not panic" or is
// stated for inputs on which a panic contradicts it).
func (s *Sub[C]) exec(r *run, c *C) (info CaseInfo, err error) {
	defer func() {
		if p := recover(); p != nil {
			err = fmt.Errorf("panic: %v\n%s", p, trimStack(debug.Stack()))
		}
	}()

	return s.check(r, c)
}

func trimStack(b []byte) string {
	lines := strings.Split(string(b), "\n")
	var keep []string
	for i := 0; i < len(lines) && len(keep) < 24; i++ {
		if strings.Contains(lines[i], "runtime/debug") || strings.Contains(lines[i], "framework_test.go") {
			continue
		}
		keep = append(keep, lines[i])
	}

	return strings.Join(keep, "\n")
}

func (s *Sub[C]) replay(raw json.RawMessage) (CaseInfo, error) {
	var c C
	if err := json.Unmarshal(raw, &c); err != nil {
		return CaseInfo{}, fmt.Errorf("bad replay case: %w", err)
	}
	r := cur
	if r == nil {
		r = &run{prop: s.prop, col: ev.New(s.prop, "replay", 0, 0, 1, "exploration")}
	}

	return s.exec(r, &c)
}

type replayFile struct {
	Property string          `json:"property"`
	Sub      string          `json:"sub"`
	Seed     int64           `json:"seed"`
	Error    string          `json:"error"`
	Case     json.RawMessage `json:"case"`
}

func (s *Sub[C]) saveReplay(c *C, err error) string {
	_ = os.MkdirAll(envReplay, 0o755)
	p := filepath.Join(envReplay, fmt.Sprintf("%s-%s-%s-seed%d-shard%d.json", s.prop, s.name, envTier, envSeed, envShard))
	raw, _ := json.Marshal(c)
	b, _ := json.MarshalIndent(replayFile{Property: s.prop, Sub: s.name, Seed: envSeed, Error: firstLine(err.Error()), Case: raw}, "", " ")
	_ = os.WriteFile(p, b, 0o644)

	return p
}

func firstLine(s string) string {
	if i := strings.IndexByte(s, '\n'); i >= 0 {
		return s[:i]
	}

	return s
}

// one executes a single explicit case (enumerations, regressions), records it and
// turns a failure into a violation with a replay file. Returns false on failure.
func (s *Sub[C]) one(r *run, c *C) bool {
	info, err := s.exec(r, c)
	r.record(s.name, c, info)
	if err != nil {
		p := s.saveReplay(c, err)
		r.col.Violate(ev.Violation{Sub: s.name, Replay: p, Msg: firstLine(err.Error())})
		r.t.Logf("%s/%s FAILED: %v\nreplay: %s", s.prop, s.name, err, p)

		return false
	}

	return true
}

func (r *run) record(sub string, c any, info CaseInfo) {
	r.col.Case(sub, info.Nontrivial,
		func() []byte { b, _ := json.Marshal(c); return append([]byte(sub+"|"), b...) },
		func() any { return sampleOf(c) },
		info.Classes...)
}

// sampleOf renders a case for the evidence file, truncating long hex strings.
func sampleOf(c any) any {
	b, err := json.Marshal(c)
	if err != nil {
		return fmt.Sprintf("%+v", c)
	}
	var v any
	if err := json.Unmarshal(b, &v); err != nil {
		return string(b)
	}

	return truncate(v)
}

func truncate(v any) any {
	switch x := v.(type) {
	case string:
		if len(x) > 96 {
			return fmt.Sprintf("%s…(%d chars)", x[:96], len(x))
		}

		return x
	case []any:
		if len(x) > 24 {
			out := make([]any, 0, 25)
			for _, e := range x[:24] {
				out = append(out, truncate(e))
			}

			return append(out, fmt.Sprintf("…(%d items)", len(x)))
		}
		for i := range x {
			x[i] = truncate(x[i])
		}

		return x
	case map[string]any:
		for k := range x {
			x[k] = truncate(x[k])
		}

		return x
	default:
		return v
	}
}

// subSeed decorrelates sub-checks and shards deterministically.
func subSeed(name string) uint64 {
	h := ev.Hash([]byte(name))
	v := uint64(envSeed)*1_000_003 + uint64(envShard)*7919 + h%1_000_000
	if v == 0 {
		v = 1
	}

	return v
}

// rapidRun drives a check with rapid: gen draws a case (all randomness is rapid's),
// the pure check runs on it, failures are shrunk by rapid and the final (minimal)
// failing case is what remains in the replay file.
func (s *Sub[C]) rapidRun(r *run, checks int, gen func(t *rapid.T) *C) {
	r.col.Requested(s.name, int64(checks))
	r.t.Run(s.name, func(t *testing.T) {
		mustSet("rapid.checks", strconv.Itoa(checks))
		mustSet("rapid.seed", strconv.FormatUint(subSeed(s.prop+"/"+s.name), 10))
		mustSet("rapid.nofailfile", "true")
		mustSet("rapid.shrinktime", shrinkTime)
		var lastPath, lastMsg string
		failed := false
		// rapid ends a failed check with FailNow (runtime.Goexit): record in a defer.
		defer func() {
			if failed {
				r.col.Violate(ev.Violation{Sub: s.name, Replay: lastPath, Msg: lastMsg})
			}
		}()
		rapid.Check(t, func(rt *rapid.T) {
			c := gen(rt)
			info, err := s.exec(r, c)
			if !failed {
				r.record(s.name, c, info)
			}
			if err != nil {
				failed = true
				lastPath = s.saveReplay(c, err)
				lastMsg = firstLine(err.Error())
				rt.Fatalf("%v", err)
			}
		})
	})
	if t := r.t; t.Failed() && r.col.Violations() == 0 {
		// rapid itself failed (e.g. could not generate): infrastructure problem.
		r.col.Note("rapid reported a failure without a property violation in " + s.name)
	}
}

func mustSet(name, v string) {
	if err := flag.Set(name, v); err != nil {
		panic(err)
	}
}

// ---------------------------------------------------------------- regressions

type regressFile struct {
	Property string          `json:"property"`
	Sub      string          `json:"sub"`
	Note     string          `json:"note"`
	Case     json.RawMessage `json:"case"`
}

// regress replays every saved case of this property first (testdata/regress) and
// the witnesses of all findings in known_findings.json: a "fixed" witness must
// pass; a "known" witness that still fails is reported through finding().
func (r *run) regress() {
	files, _ := filepath.Glob(filepath.Join("testdata", "regress", r.prop+"-*.json"))
	sort.Strings(files)
	for _, f := range files {
		b, err := os.ReadFile(f)
		if err != nil {
			continue
		}
		var rf regressFile
		if err := json.Unmarshal(b, &rf); err != nil {
			r.t.Errorf("bad regress file %s: %v", f, err)

			continue
		}
		r.replayOne("regress:"+filepath.Base(f), rf.Sub, rf.Case)
	}
	for _, k := range knownList {
		if k.Property != r.prop || len(k.Witness) == 0 || k.Sub == "" {
			continue
		}
		r.replayOne("witness:"+k.Key, k.Sub, k.Witness)
	}
}

func (r *run) replayOne(label, sub string, raw json.RawMessage) {
	rp, ok := registry[r.prop+"/"+sub]
	if !ok {
		r.t.Errorf("%s: unknown sub-check %s/%s", label, r.prop, sub)

		return
	}
	info, err := rp.replay(raw)
	r.col.Case("regress", info.Nontrivial, func() []byte { return append([]byte(label), raw...) }, nil, "regress")
	if err != nil {
		_ = os.MkdirAll(envReplay, 0o755)
		p := filepath.Join(envReplay, fmt.Sprintf("%s-%s-%s.json", r.prop, sub, sanitize(label)))
		b, _ := json.MarshalIndent(replayFile{Property: r.prop, Sub: sub, Error: firstLine(err.Error()), Case: raw}, "", " ")
		_ = os.WriteFile(p, b, 0o644)
		r.col.Violate(ev.Violation{Sub: sub, Replay: p, Msg: label + ": " + firstLine(err.Error())})
		r.t.Logf("%s %s FAILED: %v", r.prop, label, err)
	}
}

func sanitize(s string) string {
	return strings.Map(func(c rune) rune {
		if c >= 'a' && c <= 'z' || c >= 'A' && c <= 'Z' || c >= '0' && c <= '9' || c == '-' || c == '_' || c == '.' {
			return c
		}

		return '_'
	}, s)
}

// TestReplay re-executes one replay file without rapid: VERIF_REPLAY_FILE=<path>.
func TestReplay(t *testing.T) {
	p := os.Getenv("VERIF_REPLAY_FILE")
	if p == "" {
		t.Skip("VERIF_REPLAY_FILE not set")
	}
	b, err := os.ReadFile(p)
	if err != nil {
		t.Fatalf("read: %v", err)
	}
	var rf replayFile
	if err := json.Unmarshal(b, &rf); err != nil {
		t.Fatalf("parse: %v", err)
	}
	rp, ok := registry[rf.Property+"/"+rf.Sub]
	if !ok {
		t.Fatalf("unknown sub-check %s/%s", rf.Property, rf.Sub)
	}
	cur = &run{t: t, prop: rf.Property, col: ev.New(rf.Property, "replay", 0, 0, 1, "exploration")}
	knownSet = map[string]knownFinding{} // a replay never suppresses
	knownOnce.Do(func() {})
	_, err = rp.replay(rf.Case)
	if err != nil {
		fmt.Printf("REPLAY property=%s sub=%s result=FAIL\n%v\n", rf.Property, rf.Sub, err)
		t.Fail()

		return
	}
	fmt.Printf("REPLAY property=%s sub=%s result=PASS\n", rf.Property, rf.Sub)
}

// TestMergeHashes prints the size of the union of shard hash files (driver helper).
func TestMergeHashes(t *testing.T) {
	l := os.Getenv("VERIF_MERGE_FILES")
	if l == "" {
		t.Skip("VERIF_MERGE_FILES not set")
	}
	cnt, err := ev.UnionCount(strings.Split(l, ":"))
	if err != nil {
		t.Fatalf("%v", err)
	}
	fmt.Printf("UNION %d\n", cnt)
}

var errSkip = errors.New("skip")

// failf is a tiny helper for check functions.
func failf(format string, args ...any) error { return fmt.Errorf(format, args...) }

// lazy defers building a diagnostic string until it is formatted.
type lazy func() string

func (l lazy) String() string { return l() }

// hb renders bytes for an observation string: short slices literally, long ones by
// length and FNV-64 (equality of observations is what matters, not readability).
func hb(b []byte) string {
	if len(b) <= 64 {
		return hex.EncodeToString(b)
	}

	return fmt.Sprintf("%dB#%016x", len(b), ev.Hash(b))
}
