package harness

// Wire images generated from the RFC grammar through the independent reference
// builder (never through the library's encoder), and byte-level mutators.

import (
	"pgregory.net/rapid"

	"verifharness/ref/rtpwire"
)

// WireCase is a packet model plus the sender-chosen layout freedoms.
type WireCase struct {
	Model      PacketModel `json:"model"`
	PadBefore  []int       `json:"pad_before"`  // zero bytes before element i
	PadAfter   int         `json:"pad_after"`   // zero bytes after the last element
	ExtraWords int         `json:"extra_words"` // extra all-zero words closing the block
	PadFill    HexBytes    `json:"pad_fill"`    // content of RTP padding octets
	// one-byte blocks only: an id-15 element (low nibble ID15Len) followed by
	// arbitrary bytes placed after the regular elements; nil = absent.
	ID15     bool     `json:"id15"`
	ID15Len  uint8    `json:"id15_len"`
	ID15Tail HexBytes `json:"id15_tail"`
	Muts     []MutOp  `json:"muts,omitempty"`
}

// MutOp is one byte-level mutation of an image.
type MutOp struct {
	Kind string `json:"kind"` // trunc | flip | set | add | ins | del
	Pos  int    `json:"pos"`
	Val  uint8  `json:"val"`
}

func applyMuts(b []byte, ops []MutOp) []byte {
	b = clone(b)
	if b == nil {
		b = []byte{}
	}
	for _, op := range ops {
		if len(b) == 0 && op.Kind != "ins" {
			continue
		}
		pos := op.Pos
		if len(b) > 0 {
			pos %= len(b)
		}
		switch op.Kind {
		case "trunc":
			b = b[:pos]
		case "flip":
			b[pos] ^= 1 << (op.Val & 7)
		case "set":
			b[pos] = op.Val
		case "add":
			b[pos] += op.Val
		case "ins":
			if len(b) == 0 {
				pos = 0
			}
			b = append(b[:pos], append([]byte{op.Val}, b[pos:]...)...)
		case "del":
			b = append(b[:pos], b[pos+1:]...)
		}
	}

	return b
}

var boundaryAlphabet = []uint8{0x00, 0x01, 0x0F, 0x10, 0x7F, 0x80, 0x90, 0xBE, 0xDE, 0xF0, 0xFF, 0x02, 0x03, 0x04}

// genMuts draws 1..k mutations biased to the first hdr bytes (where parsers decide).
func genMuts(t *rapid.T, k int, hdr int) []MutOp {
	nm := rapid.IntRange(1, k).Draw(t, "nmut")
	ops := make([]MutOp, nm)
	for i := range ops {
		kind := rapid.SampledFrom([]string{"trunc", "flip", "flip", "set", "set", "set", "add", "ins", "del"}).Draw(t, "mkind")
		var pos int
		if rapid.IntRange(0, 3).Draw(t, "mposmode") != 0 && hdr > 0 {
			pos = rapid.IntRange(0, hdr+3).Draw(t, "mpos")
		} else {
			pos = rapid.IntRange(0, 4000).Draw(t, "mpos")
		}
		var val uint8
		switch kind {
		case "set", "ins":
			if genBool(t, "malpha") {
				val = rapid.SampledFrom(boundaryAlphabet).Draw(t, "mval")
			} else {
				val = rapid.Byte().Draw(t, "mval")
			}
		case "add":
			val = rapid.SampledFrom([]uint8{1, 0xFF, 2, 0xFE, 4, 0xFC}).Draw(t, "mval")
		default:
			val = rapid.Byte().Draw(t, "mval")
		}
		ops[i] = MutOp{Kind: kind, Pos: pos, Val: val}
	}

	return ops
}

// wire builds the reference packet and layout of the case.
func (c *WireCase) wire() (*rtpwire.Packet, *rtpwire.Layout) {
	w := c.Model.wire()
	lay := &rtpwire.Layout{PadBefore: c.PadBefore, PadAfter: c.PadAfter, ExtraWord: c.ExtraWords, PadFill: c.PadFill}
	if c.PadBefore != nil && len(c.PadBefore) != len(w.Elems) {
		lay.PadBefore = nil
	}

	return w, lay
}

// image lays the case out; id15Off is the offset of the id-15 byte or -1.
func (c *WireCase) image() (img []byte, w *rtpwire.Packet, id15Off int, err error) {
	w, lay := c.wire()
	id15Off = -1
	if c.ID15 && c.Model.ExtKind == "onebyte" {
		// lay out the regular elements, then splice the id-15 element and its tail
		// into the block by hand: build with the extension data extended.
		data, offs, e := rtpwire.BlockData(w.Profile, w.Elems, &rtpwire.Layout{PadBefore: lay.PadBefore, PadAfter: lay.PadAfter})
		if e != nil {
			return nil, nil, -1, e
		}
		// strip alignment zeros that BlockData appended beyond PadAfter so that the
		// id-15 byte follows the chosen padding directly
		used := 0
		for i, el := range w.Elems {
			used = offs[i] + len(el.Val)
		}
		used += lay.PadAfter
		if len(w.Elems) == 0 {
			used = lay.PadAfter
		}
		data = data[:used]
		rel := len(data)
		data = append(data, 0xF0|c.ID15Len&0x0F)
		data = append(data, c.ID15Tail...)
		for len(data)%4 != 0 {
			data = append(data, 0)
		}
		// assemble by hand around the block
		raw := &rtpwire.Packet{
			Version: w.Version, Padding: false, Ext: false, Marker: w.Marker, PT: w.PT, Seq: w.Seq, TS: w.TS, SSRC: w.SSRC, CSRC: w.CSRC,
		}
		head, e := rtpwire.Build(raw, nil)
		if e != nil {
			return nil, nil, -1, e
		}
		head[0] |= 0x10
		if w.Padding {
			head[0] |= 0x20
		}
		img = append(img, head...)
		img = append(img, byte(w.Profile>>8), byte(w.Profile), byte(len(data)/4>>8), byte(len(data)/4))
		base := len(img)
		img = append(img, data...)
		for i := range w.Elems {
			w.Elems[i].Off = base + offs[i]
		}
		id15Off = base + rel
		w.HeaderLen = len(img)
		img = append(img, w.Payload...)
		if w.Padding {
			for i := 0; i < w.PadLen-1; i++ {
				v := byte(0)
				if len(lay.PadFill) > 0 {
					v = lay.PadFill[i%len(lay.PadFill)]
				}
				img = append(img, v)
			}
			img = append(img, byte(w.PadLen))
		}
	} else {
		img, err = rtpwire.Build(w, lay)
		if err != nil {
			return nil, nil, -1, err
		}
	}
	if len(c.Muts) > 0 {
		img = applyMuts(img, c.Muts)
	}

	return img, w, id15Off, nil
}

// canonical reports whether the layout is the encoder's canonical one.
func (c *WireCase) canonical() bool {
	if c.ID15 || c.PadAfter != 0 || c.ExtraWords != 0 || len(c.Muts) > 0 {
		return false
	}
	for _, p := range c.PadBefore {
		if p != 0 {
			return false
		}
	}
	for _, b := range c.PadFill {
		if b != 0 {
			return false
		}
	}

	return true
}

// genWireCase draws an RFC-well-formed wire image description.
func genWireCase(t *rapid.T, allowID15 bool) *WireCase {
	allowAppbitsProfiles = false
	c := &WireCase{Model: *genPacketModel(t)}
	allowAppbitsProfiles = true
	m := &c.Model
	if len(m.Payload) > 200 {
		m.Payload = m.Payload[:200]
	}
	if m.ExtKind == "onebyte" || m.ExtKind == "twobyte" {
		mode := rapid.IntRange(0, 3).Draw(t, "laymode")
		if mode != 0 {
			c.PadBefore = make([]int, len(m.Exts))
			for i := range c.PadBefore {
				c.PadBefore[i] = rapid.SampledFrom([]int{0, 0, 0, 1, 2, 3, 4, 5}).Draw(t, "padbefore")
			}
			if len(c.PadBefore) > 0 && rapid.IntRange(0, 9).Draw(t, "longpad") == 0 {
				// a long run of padding bytes in front of one element (legal: any number of zero bytes)
				c.PadBefore[rapid.IntRange(0, len(c.PadBefore)-1).Draw(t, "longpadat")] = rapid.SampledFrom([]int{6, 15, 16, 31, 32, 63, 64, 65, 70, 127, 128, 129, 255, 256, 300, 1000}).Draw(t, "longpadlen")
			}
			c.PadAfter = rapid.SampledFrom([]int{0, 0, 1, 2, 3, 4, 7, 64, 200}).Draw(t, "padafter")
			c.ExtraWords = rapid.SampledFrom([]int{0, 0, 0, 1, 2}).Draw(t, "extrawords")
		}
		if allowID15 && m.ExtKind == "onebyte" && rapid.IntRange(0, 7).Draw(t, "id15") == 0 {
			c.ID15 = true
			c.ID15Len = uint8(rapid.IntRange(0, 15).Draw(t, "id15len"))
			c.ID15Tail = genBytesN(t, "id15tail", rapid.IntRange(0, 12).Draw(t, "id15taillen"))
		}
	}
	if allowID15 && (m.ExtKind == "onebyte" || m.ExtKind == "twobyte") && rapid.IntRange(0, 99).Draw(t, "manyelems") == 57 {
		// more elements than ids (ids repeat), more than 255 of them: nothing in the grammar bounds the count
		n := rapid.SampledFrom([]int{255, 256, 257, 300, 700}).Draw(t, "manyelemsn")
		m.Exts = m.Exts[:0]
		for i := 0; i < n; i++ {
			m.Exts = append(m.Exts, ExtElem{ID: uint8(1 + i%14), Val: []byte{byte(i), byte(i >> 8)}})
		}
		c.PadBefore = nil
	}
	if allowID15 && (m.ExtKind == "onebyte" || m.ExtKind == "twobyte") && len(m.Exts) >= 2 && len(m.Exts) <= 40 && rapid.IntRange(0, 5).Draw(t, "dupid") == 0 {
		// the grammar does not forbid an id to occur twice in a block: both elements are decoded, in wire order
		j := rapid.IntRange(1, len(m.Exts)-1).Draw(t, "dupat")
		m.Exts[j].ID = m.Exts[rapid.IntRange(0, j-1).Draw(t, "dupof")].ID
	}
	if m.PaddingSize > 0 && genBool(t, "padfill") {
		c.PadFill = genBytesN(t, "padfillbytes", rapid.IntRange(1, 4).Draw(t, "padfilllen"))
	}

	return c
}
