// Package vla is an independent encoder/decoder of the WebRTC
// video-layers-allocation00 header extension, written from the specification text:
//
//	+-+-+-+-+-+-+-+-+
//	|RID| NS| sl_bm |      RID: stream this allocation is sent on; NS: streams-1;
//	+-+-+-+-+-+-+-+-+      sl_bm: spatial-layer bitmask when it is the same for all streams, else 0
//	|sl0_bm |sl1_bm |      when sl_bm == 0: one 4-bit mask per stream (1 byte for NS<2, else 2 bytes)
//	|sl2_bm |sl3_bm |
//	+-+-+-+-+-+-+-+-+
//	|#tl|#tl|#tl|#tl|      2 bits (temporal layers - 1) per active spatial layer, zero padded to a byte
//	+-+-+-+-+-+-+-+-+
//	| target bitrates |    LEB128 kbps per temporal layer
//	+-+-+-+-+-+-+-+-+
//	| width-1 | height-1 | fps |  optional, 5 bytes per active spatial layer
package vla

import (
	"errors"

	"verifharness/ref/leb128"
)

// Layer is one active spatial layer.
type Layer struct {
	Stream   int
	Spatial  int
	Bitrates []uint64 // 1..4 temporal layers, kbps
	Width    int      // 1..65536 (only with HasRes)
	Height   int
	FPS      int // 0..255
}

// Alloc is a complete allocation.
type Alloc struct {
	RID     int
	Streams int
	Layers  []Layer // ordered by (Stream, Spatial), unique
	HasRes  bool
}

// Masks returns the per-stream spatial layer bitmasks.
func (a *Alloc) Masks() [4]uint8 {
	var m [4]uint8
	for _, l := range a.Layers {
		m[l.Stream] |= 1 << uint(l.Spatial)
	}

	return m
}

// Encode lays the allocation out exactly as the specification describes.
func Encode(a *Alloc) []byte {
	m := a.Masks()
	shared := m[0]
	for s := 1; s < a.Streams; s++ {
		if m[s] != m[0] {
			shared = 0
		}
	}
	out := []byte{byte(a.RID<<6) | byte(a.Streams-1)<<4 | shared}
	if shared == 0 {
		out = append(out, m[0]<<4|m[1])
		if a.Streams > 2 {
			out = append(out, m[2]<<4|m[3])
		}
	}
	var tl byte
	for i, l := range a.Layers {
		tl |= byte(len(l.Bitrates)-1) << uint(6-2*(i%4))
		if i%4 == 3 || i == len(a.Layers)-1 {
			out = append(out, tl)
			tl = 0
		}
	}
	for _, l := range a.Layers {
		for _, b := range l.Bitrates {
			out = append(out, leb128.Encode(b)...)
		}
	}
	if a.HasRes {
		for _, l := range a.Layers {
			out = append(out, byte((l.Width-1)>>8), byte(l.Width-1), byte((l.Height-1)>>8), byte(l.Height-1), byte(l.FPS))
		}
	}

	return out
}

// Decode parses an allocation (strict: everything must be consumed); bitrate fields of up to eight bytes.
func Decode(b []byte) (*Alloc, error) { return decode(b, leb128.Decode) }

// DecodeWide is Decode with bitrate fields of up to ten bytes (the whole 64-bit range).
func DecodeWide(b []byte) (*Alloc, error) { return decode(b, leb128.Decode64) }

func decode(b []byte, readLEB func([]byte) (uint64, int, error)) (*Alloc, error) {
	if len(b) < 1 {
		return nil, errors.New("empty")
	}
	a := &Alloc{RID: int(b[0] >> 6), Streams: int(b[0]>>4&3) + 1}
	var m [4]uint8
	pos := 1
	if sh := b[0] & 0x0F; sh != 0 {
		for s := 0; s < a.Streams; s++ {
			m[s] = sh
		}
	} else {
		nb := 1
		if a.Streams > 2 {
			nb = 2
		}
		if len(b) < pos+nb {
			return nil, errors.New("short masks")
		}
		m[0], m[1] = b[pos]>>4, b[pos]&0x0F
		if nb == 2 {
			m[2], m[3] = b[pos+1]>>4, b[pos+1]&0x0F
		}
		pos += nb
	}
	for s := 0; s < a.Streams; s++ {
		for sp := 0; sp < 4; sp++ {
			if m[s]&(1<<uint(sp)) != 0 {
				a.Layers = append(a.Layers, Layer{Stream: s, Spatial: sp})
			}
		}
	}
	ntl := (len(a.Layers) + 3) / 4
	if len(b) < pos+ntl {
		return nil, errors.New("short #tl")
	}
	for i := range a.Layers {
		cnt := int(b[pos+i/4]>>uint(6-2*(i%4))&3) + 1
		a.Layers[i].Bitrates = make([]uint64, cnt)
	}
	pos += ntl
	for i := range a.Layers {
		for j := range a.Layers[i].Bitrates {
			v, n, err := readLEB(b[pos:])
			if err != nil {
				return nil, err
			}
			a.Layers[i].Bitrates[j] = v
			pos += n
		}
	}
	if pos == len(b) {
		return a, nil
	}
	if len(b)-pos != 5*len(a.Layers) {
		return nil, errors.New("trailing bytes are not a resolution block")
	}
	a.HasRes = true
	for i := range a.Layers {
		a.Layers[i].Width = int(b[pos])<<8 + int(b[pos+1]) + 1
		a.Layers[i].Height = int(b[pos+2])<<8 + int(b[pos+3]) + 1
		a.Layers[i].FPS = int(b[pos+4])
		pos += 5
	}

	return a, nil
}
