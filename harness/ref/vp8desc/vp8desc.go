// Package vp8desc is an independent model of the VP8 RTP payload descriptor
// (RFC 7741 §4.2):
//
//	 0 1 2 3 4 5 6 7
//	+-+-+-+-+-+-+-+-+
//	|X|R|N|S|R| PID | (REQUIRED)
//	+-+-+-+-+-+-+-+-+
//	X: |I|L|T|K| RSV   | (OPTIONAL)
//	I: |M| PictureID   | (OPTIONAL)  M=1: 15-bit id in two octets
//	L: |   TL0PICIDX   | (OPTIONAL)
//	T/K: |TID|Y| KEYIDX  | (OPTIONAL)
package vp8desc

import "errors"

// Desc holds every bit of a descriptor, including the reserved ones.
type Desc struct {
	X, N, S    bool
	R1, R2     bool // reserved bits of the first octet
	PID        uint8
	I, L, T, K bool
	RSV        uint8 // low 4 bits of the extension octet
	M          bool  // 15-bit picture id form
	PictureID  uint16
	TL0PICIDX  uint8
	TKByte     uint8 // the whole TID|Y|KEYIDX octet as sent (unused sub-fields may hold garbage)
}

func b2u(b bool, shift uint) byte {
	if b {
		return 1 << shift
	}

	return 0
}

// Build serialises the descriptor.
func Build(d *Desc) []byte {
	out := []byte{b2u(d.X, 7) | b2u(d.R1, 6) | b2u(d.N, 5) | b2u(d.S, 4) | b2u(d.R2, 3) | d.PID&7}
	if !d.X {
		return out
	}
	out = append(out, b2u(d.I, 7)|b2u(d.L, 6)|b2u(d.T, 5)|b2u(d.K, 4)|d.RSV&0x0F)
	if d.I {
		if d.M {
			out = append(out, 0x80|byte(d.PictureID>>8)&0x7F, byte(d.PictureID))
		} else {
			out = append(out, byte(d.PictureID)&0x7F)
		}
	}
	if d.L {
		out = append(out, d.TL0PICIDX)
	}
	if d.T || d.K {
		out = append(out, d.TKByte)
	}

	return out
}

// Size is the length of the serialised descriptor.
func Size(d *Desc) int { return len(Build(d)) }

// Parsed is what a receiver must read (RFC semantics: fields whose presence bit
// is clear are reported as zero).
type Parsed struct {
	X, N, S, I, L, T, K bool
	PID                 uint8
	M                   bool
	PictureID           uint16
	TL0PICIDX           uint8
	TID                 uint8
	Y                   bool
	KEYIDX              uint8
	Len                 int
}

// Parse reads a descriptor from b.
func Parse(b []byte) (*Parsed, error) {
	short := errors.New("descriptor cut short")
	if len(b) < 1 {
		return nil, short
	}
	p := &Parsed{X: b[0]&0x80 != 0, N: b[0]&0x20 != 0, S: b[0]&0x10 != 0, PID: b[0] & 7}
	i := 1
	if p.X {
		if len(b) <= i {
			return nil, short
		}
		p.I, p.L, p.T, p.K = b[i]&0x80 != 0, b[i]&0x40 != 0, b[i]&0x20 != 0, b[i]&0x10 != 0
		i++
	}
	if p.I {
		if len(b) <= i {
			return nil, short
		}
		if b[i]&0x80 != 0 {
			if len(b) <= i+1 {
				return nil, short
			}
			p.M = true
			p.PictureID = uint16(b[i]&0x7F)<<8 | uint16(b[i+1])
			i += 2
		} else {
			p.PictureID = uint16(b[i])
			i++
		}
	}
	if p.L {
		if len(b) <= i {
			return nil, short
		}
		p.TL0PICIDX = b[i]
		i++
	}
	if p.T || p.K {
		if len(b) <= i {
			return nil, short
		}
		if p.T {
			p.TID = b[i] >> 6
			p.Y = b[i]&0x20 != 0
		}
		if p.K {
			p.KEYIDX = b[i] & 0x1F
		}
		i++
	}
	p.Len = i

	return p, nil
}
