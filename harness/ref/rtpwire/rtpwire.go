// Package rtpwire is an independent model of the RTP fixed header (RFC 3550 §5.1),
// the header extension (§5.3.1) and the RFC 8285 one-byte / two-byte element
// formats. It shares no code with pion/rtp and is the trusted base of the wire
// level checks: a builder that can lay a packet out in every way the RFCs allow,
// and a strict parser.
package rtpwire

import (
	"encoding/binary"
	"errors"
	"fmt"
)

const (
	ProfileOneByte = 0xBEDE
	ProfileTwoByte = 0x1000
)

// Elem is one RFC 8285 extension element (or, with ID 0 under a legacy profile,
// the whole RFC 3550 extension data).
type Elem struct {
	ID  uint8
	Val []byte
	Off int // offset of Val in the wire image (set by Parse/Build)
}

// Packet is the abstract content of an RTP packet.
type Packet struct {
	Version uint8
	Padding bool
	Ext     bool
	Marker  bool
	PT      uint8
	Seq     uint16
	TS      uint32
	SSRC    uint32
	CSRC    []uint32
	Profile uint16
	Elems   []Elem
	Payload []byte
	PadLen  int // RTP padding octets including the count octet (0 when !Padding)

	// results of Parse
	HeaderLen int  // offset of the payload
	Stopped   bool // one-byte id 15 encountered
}

// Layout tells Build where to put the bytes the RFCs leave to the sender.
type Layout struct {
	PadBefore []int  // zero bytes before element i (len == len(Elems)), nil = none
	PadAfter  int    // zero bytes after the last element (before alignment)
	ExtraWord int    // additional all-zero 32-bit words at the end of the block
	PadFill   []byte // content of the RTP padding octets before the count (cycled); nil = zeros
}

// Kind classifies a profile value the way RFC 8285 does for the exact constants
// pion/rtp documents (two-byte form with appbits 0).
func Kind(profile uint16) string {
	switch profile {
	case ProfileOneByte:
		return "onebyte"
	case ProfileTwoByte:
		return "twobyte"
	default:
		return "legacy"
	}
}

// BlockData serialises the extension elements (without the 4-byte extension
// header), padded with zeros to a multiple of four bytes.
func BlockData(profile uint16, elems []Elem, lay *Layout) ([]byte, []int, error) {
	var b []byte
	offs := make([]int, len(elems))
	switch Kind(profile) {
	case "onebyte":
		for i, e := range elems {
			if lay != nil && lay.PadBefore != nil {
				b = append(b, make([]byte, lay.PadBefore[i])...)
			}
			if e.ID < 1 || e.ID > 15 || len(e.Val) < 1 || len(e.Val) > 16 {
				return nil, nil, fmt.Errorf("one-byte element %d/%d not representable", e.ID, len(e.Val))
			}
			b = append(b, e.ID<<4|uint8(len(e.Val)-1))
			offs[i] = len(b)
			b = append(b, e.Val...)
		}
	case "twobyte":
		for i, e := range elems {
			if lay != nil && lay.PadBefore != nil {
				b = append(b, make([]byte, lay.PadBefore[i])...)
			}
			if e.ID < 1 || len(e.Val) > 255 {
				return nil, nil, fmt.Errorf("two-byte element %d/%d not representable", e.ID, len(e.Val))
			}
			b = append(b, e.ID, uint8(len(e.Val)))
			offs[i] = len(b)
			b = append(b, e.Val...)
		}
	default:
		if len(elems) != 1 || elems[0].ID != 0 || len(elems[0].Val)%4 != 0 {
			return nil, nil, errors.New("legacy block needs exactly one id-0 value of whole words")
		}
		offs[0] = 0
		b = append(b, elems[0].Val...)
	}
	if Kind(profile) != "legacy" {
		if lay != nil {
			b = append(b, make([]byte, lay.PadAfter)...)
		}
		for len(b)%4 != 0 {
			b = append(b, 0)
		}
		if lay != nil {
			b = append(b, make([]byte, 4*lay.ExtraWord)...)
		}
	}
	if len(b)/4 > 0xFFFF {
		return nil, nil, errors.New("extension block too long")
	}

	return b, offs, nil
}

// Build lays the packet out. lay == nil gives the canonical layout.
func Build(p *Packet, lay *Layout) ([]byte, error) {
	if len(p.CSRC) > 15 || p.Version > 3 || p.PT > 127 {
		return nil, errors.New("field out of range")
	}
	b := make([]byte, 12, 12+4*len(p.CSRC)+len(p.Payload)+p.PadLen+64)
	b[0] = p.Version<<6 | uint8(len(p.CSRC))
	if p.Padding {
		b[0] |= 0x20
	}
	if p.Ext {
		b[0] |= 0x10
	}
	b[1] = p.PT
	if p.Marker {
		b[1] |= 0x80
	}
	binary.BigEndian.PutUint16(b[2:], p.Seq)
	binary.BigEndian.PutUint32(b[4:], p.TS)
	binary.BigEndian.PutUint32(b[8:], p.SSRC)
	for _, c := range p.CSRC {
		b = binary.BigEndian.AppendUint32(b, c)
	}
	if p.Ext {
		data, offs, err := BlockData(p.Profile, p.Elems, lay)
		if err != nil {
			return nil, err
		}
		b = binary.BigEndian.AppendUint16(b, p.Profile)
		b = binary.BigEndian.AppendUint16(b, uint16(len(data)/4))
		base := len(b)
		b = append(b, data...)
		for i := range p.Elems {
			p.Elems[i].Off = base + offs[i]
		}
	}
	p.HeaderLen = len(b)
	b = append(b, p.Payload...)
	if p.Padding {
		if p.PadLen < 1 || p.PadLen > 255 {
			return nil, errors.New("padding length out of range")
		}
		for i := 0; i < p.PadLen-1; i++ {
			v := byte(0)
			if lay != nil && len(lay.PadFill) > 0 {
				v = lay.PadFill[i%len(lay.PadFill)]
			}
			b = append(b, v)
		}
		b = append(b, byte(p.PadLen))
	} else if p.PadLen != 0 {
		return nil, errors.New("PadLen without P bit")
	}

	return b, nil
}

// Parse is a strict RFC 3550 / RFC 8285 parser. Elements alias b.
func Parse(b []byte) (*Packet, error) {
	if len(b) < 12 {
		return nil, errors.New("short fixed header")
	}
	p := &Packet{
		Version: b[0] >> 6, Padding: b[0]&0x20 != 0, Ext: b[0]&0x10 != 0,
		Marker: b[1]&0x80 != 0, PT: b[1] & 0x7F,
		Seq: binary.BigEndian.Uint16(b[2:]), TS: binary.BigEndian.Uint32(b[4:]), SSRC: binary.BigEndian.Uint32(b[8:]),
	}
	cc := int(b[0] & 0x0F)
	n := 12 + 4*cc
	if len(b) < n {
		return nil, errors.New("short CSRC list")
	}
	p.CSRC = make([]uint32, cc)
	for i := range p.CSRC {
		p.CSRC[i] = binary.BigEndian.Uint32(b[12+4*i:])
	}
	if p.Ext {
		if len(b) < n+4 {
			return nil, errors.New("short extension header")
		}
		p.Profile = binary.BigEndian.Uint16(b[n:])
		words := int(binary.BigEndian.Uint16(b[n+2:]))
		n += 4
		end := n + 4*words
		if len(b) < end {
			return nil, errors.New("short extension block")
		}
		switch Kind(p.Profile) {
		case "onebyte":
			for i := n; i < end; {
				if b[i] == 0 {
					i++

					continue
				}
				id, l := b[i]>>4, int(b[i]&0x0F)+1
				if id == 15 {
					p.Stopped = true

					break
				}
				i++
				if i+l > end {
					return nil, errors.New("one-byte element overruns the block")
				}
				p.Elems = append(p.Elems, Elem{ID: id, Val: b[i : i+l], Off: i})
				i += l
			}
		case "twobyte":
			for i := n; i < end; {
				if b[i] == 0 {
					i++

					continue
				}
				if i+2 > end {
					return nil, errors.New("two-byte element header overruns the block")
				}
				id, l := b[i], int(b[i+1])
				i += 2
				if i+l > end {
					return nil, errors.New("two-byte element overruns the block")
				}
				p.Elems = append(p.Elems, Elem{ID: id, Val: b[i : i+l], Off: i})
				i += l
			}
		default:
			p.Elems = []Elem{{ID: 0, Val: b[n:end], Off: n}}
		}
		n = end
	}
	p.HeaderLen = n
	end := len(b)
	if p.Padding {
		if end <= n {
			return nil, errors.New("padding flag without padding")
		}
		p.PadLen = int(b[end-1])
		if p.PadLen == 0 || n+p.PadLen > end {
			return nil, errors.New("bad padding count")
		}
		end -= p.PadLen
	}
	p.Payload = b[n:end]

	return p, nil
}
