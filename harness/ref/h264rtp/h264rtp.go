// Package h264rtp is an independent model of the RFC 6184 payload structures used
// by pion/rtp (single NAL unit packet §5.6, STAP-A §5.7.1, FU-A §5.8), with an
// encoder that can packetise in every legal way and a reassembler.
package h264rtp

import (
	"encoding/binary"
	"errors"
	"fmt"
)

const (
	TypeSTAPA = 24
	TypeFUA   = 28
)

// Payload is one parsed RTP payload.
type Payload struct {
	Kind  string   // "single" | "stapa" | "fua"
	Units [][]byte // single: the unit; stapa: the aggregated units
	// FU-A
	S, E, R  bool
	NRI      uint8
	FUType   uint8
	Fragment []byte
}

// Parse classifies and splits one payload.
func Parse(p []byte) (*Payload, error) {
	if len(p) < 1 {
		return nil, errors.New("empty payload")
	}
	if p[0]&0x80 != 0 {
		return nil, errors.New("forbidden_zero_bit set")
	}
	t := p[0] & 0x1F
	switch {
	case t >= 1 && t <= 23:
		return &Payload{Kind: "single", Units: [][]byte{p}}, nil
	case t == TypeSTAPA:
		out := &Payload{Kind: "stapa"}
		i := 1
		for i < len(p) {
			if i+2 > len(p) {
				return nil, errors.New("STAP-A: truncated size field")
			}
			sz := int(binary.BigEndian.Uint16(p[i:]))
			i += 2
			if sz == 0 || i+sz > len(p) {
				return nil, fmt.Errorf("STAP-A: unit size %d does not fit", sz)
			}
			out.Units = append(out.Units, p[i:i+sz])
			i += sz
		}
		if len(out.Units) == 0 {
			return nil, errors.New("STAP-A without units")
		}

		return out, nil
	case t == TypeFUA:
		if len(p) < 2 {
			return nil, errors.New("FU-A without header")
		}

		return &Payload{Kind: "fua", NRI: p[0] >> 5 & 3, S: p[1]&0x80 != 0, E: p[1]&0x40 != 0, R: p[1]&0x20 != 0, FUType: p[1] & 0x1F, Fragment: p[2:]}, nil
	}

	return nil, fmt.Errorf("unsupported payload type %d", t)
}

// Reasm reassembles NAL units from a payload stream without loss.
type Reasm struct {
	open bool
	hdr  byte
	buf  []byte
}

// Push returns the units completed by this payload.
func (r *Reasm) Push(p []byte) ([][]byte, error) {
	pl, err := Parse(p)
	if err != nil {
		return nil, err
	}
	switch pl.Kind {
	case "single", "stapa":
		if r.open {
			return nil, errors.New("non-FU payload inside an open FU-A train")
		}

		return pl.Units, nil
	default:
		if pl.S {
			if r.open {
				return nil, errors.New("FU-A start inside an open train")
			}
			r.open, r.hdr, r.buf = true, pl.NRI<<5|pl.FUType, nil
		} else if !r.open {
			return nil, errors.New("FU-A continuation without start")
		}
		if r.hdr != pl.NRI<<5|pl.FUType {
			return nil, errors.New("FU-A fragments disagree on NRI/type")
		}
		r.buf = append(r.buf, pl.Fragment...)
		if pl.E {
			u := append([]byte{r.hdr}, r.buf...)
			r.open, r.buf = false, nil

			return [][]byte{u}, nil
		}

		return nil, nil
	}
}

// Open reports whether a train is unfinished.
func (r *Reasm) Open() bool { return r.open }

// Frame renders units the way H264Packet hands them out: Annex-B (4-byte start
// codes) or AVC (4-byte big-endian lengths).
func Frame(units [][]byte, avc bool) []byte {
	out := []byte{}
	for _, u := range units {
		if avc {
			out = binary.BigEndian.AppendUint32(out, uint32(len(u)))
		} else {
			out = append(out, 0, 0, 0, 1)
		}
		out = append(out, u...)
	}

	return out
}

// Single is a single NAL unit packet.
func Single(nal []byte) []byte { return append([]byte{}, nal...) }

// STAPA aggregates units; the NRI is the maximum of the units' (RFC 6184 §5.7.1).
func STAPA(nals [][]byte) []byte {
	var nri byte
	for _, n := range nals {
		if v := n[0] >> 5 & 3; v > nri {
			nri = v
		}
	}
	out := []byte{nri<<5 | TypeSTAPA}
	for _, n := range nals {
		out = binary.BigEndian.AppendUint16(out, uint16(len(n)))
		out = append(out, n...)
	}

	return out
}

// FUA fragments nal (header + body) into FU-As whose fragment sizes are given by
// sizes (which must sum to len(nal)-1 and have at least two entries).
func FUA(nal []byte, sizes []int) [][]byte {
	body := nal[1:]
	var out [][]byte
	off := 0
	for i, sz := range sizes {
		h := nal[0] & 0x1F
		if i == 0 {
			h |= 0x80
		}
		if i == len(sizes)-1 {
			h |= 0x40
		}
		p := []byte{nal[0]&0x60 | TypeFUA, h}
		p = append(p, body[off:off+sz]...)
		off += sz
		out = append(out, p)
	}

	return out
}
