// Package vp9hdr writes the beginning of a VP9 uncompressed header (VP9 bitstream
// specification §6.2: frame_marker, profile, show_existing_frame, frame_type,
// show_frame, error_resilient_mode, frame_sync_code, color_config, frame_size) bit
// by bit, independently of pion/rtp's parser.
package vp9hdr

// Header is the content of the generated prefix.
type Header struct {
	Profile           uint8 // 0..3
	ShowExistingFrame bool
	FrameToShow       uint8 // 3 bits
	NonKey            bool
	ShowFrame         bool
	ErrorRes          bool
	TenOrTwelve       bool  // profile >= 2
	ColorSpace        uint8 // 0..7 (7 = RGB)
	ColorRange        bool
	SubX, SubY        bool // profile 1/3, not RGB
	ReservedBits      bool // value written into reserved_zero bits (should be ignored by a parser)
	WidthMinus1       uint16
	HeightMinus1      uint16
}

type bitWriter struct {
	buf  []byte
	nbit int
}

func (w *bitWriter) put(v uint64, n int) {
	for i := n - 1; i >= 0; i-- {
		if w.nbit%8 == 0 {
			w.buf = append(w.buf, 0)
		}
		if v>>uint(i)&1 != 0 {
			w.buf[len(w.buf)-1] |= 1 << uint(7-w.nbit%8)
		}
		w.nbit++
	}
}

func (w *bitWriter) flag(b bool) {
	if b {
		w.put(1, 1)
	} else {
		w.put(0, 1)
	}
}

// Write returns the header bytes and the number of meaningful bits.
func Write(h *Header) ([]byte, int) {
	w := &bitWriter{}
	w.put(2, 2)
	w.put(uint64(h.Profile&1), 1)
	w.put(uint64(h.Profile>>1&1), 1)
	if h.Profile == 3 {
		w.flag(h.ReservedBits)
	}
	w.flag(h.ShowExistingFrame)
	if h.ShowExistingFrame {
		w.put(uint64(h.FrameToShow&7), 3)

		return w.buf, w.nbit
	}
	w.flag(h.NonKey)
	w.flag(h.ShowFrame)
	w.flag(h.ErrorRes)
	if !h.NonKey {
		w.put(0x49, 8)
		w.put(0x83, 8)
		w.put(0x42, 8)
		if h.Profile >= 2 {
			w.flag(h.TenOrTwelve)
		}
		w.put(uint64(h.ColorSpace&7), 3)
		if h.ColorSpace != 7 {
			w.flag(h.ColorRange)
			if h.Profile == 1 || h.Profile == 3 {
				w.flag(h.SubX)
				w.flag(h.SubY)
				w.flag(h.ReservedBits)
			}
		} else if h.Profile == 1 || h.Profile == 3 {
			w.flag(h.ReservedBits)
		}
		w.put(uint64(h.WidthMinus1), 16)
		w.put(uint64(h.HeightMinus1), 16)
	}

	return w.buf, w.nbit
}
