// Package h265rtp is an independent model of the RFC 7798 payload structures:
// single NAL unit packets (§4.4.1), aggregation packets (§4.4.2), fragmentation
// units (§4.4.3) and PACI packets (§4.4.4) with the TSCI extension (§4.5), with and
// without DONL/DOND fields.
package h265rtp

import (
	"encoding/binary"
	"errors"
	"fmt"
)

const (
	TypeAP   = 48
	TypeFU   = 49
	TypePACI = 50
)

// Hdr is the two-octet NAL unit / payload header: F(1) Type(6) LayerID(6) TID(3).
type Hdr struct {
	F       bool
	Type    uint8
	LayerID uint8
	TID     uint8
}

func (h Hdr) Bytes() [2]byte {
	var v uint16
	if h.F {
		v |= 0x8000
	}
	v |= uint16(h.Type&0x3F) << 9
	v |= uint16(h.LayerID&0x3F) << 3
	v |= uint16(h.TID & 7)

	return [2]byte{byte(v >> 8), byte(v)}
}

func ParseHdr(b []byte) Hdr {
	v := binary.BigEndian.Uint16(b)

	return Hdr{F: v&0x8000 != 0, Type: uint8(v >> 9 & 0x3F), LayerID: uint8(v >> 3 & 0x3F), TID: uint8(v & 7)}
}

// Payload is one parsed RTP payload.
type Payload struct {
	Kind string // single | ap | fu | paci
	Hdr  Hdr
	// single
	DONL *uint16
	Unit []byte // single: the complete NAL unit (header + payload)
	// ap
	Units [][]byte
	DONDs []uint8 // for units 1..n-1 when DONL is in use
	// fu
	S, E     bool
	FuType   uint8
	Fragment []byte
	// paci
	A        bool
	CType    uint8
	PHSsize  uint8
	F0, F1   bool
	F2, Y    bool
	PHES     []byte
	PACIData []byte
}

// Parse reads one payload; donl tells whether sprop-max-don-diff > 0.
func Parse(p []byte, donl bool) (*Payload, error) {
	if len(p) < 3 {
		return nil, errors.New("payload shorter than header + one octet")
	}
	h := ParseHdr(p)
	out := &Payload{Hdr: h}
	rest := p[2:]
	switch h.Type {
	case TypeAP:
		out.Kind = "ap"
		first := true
		for len(rest) > 0 {
			if donl {
				if first {
					if len(rest) < 2 {
						return nil, errors.New("AP: truncated DONL")
					}
					v := binary.BigEndian.Uint16(rest)
					out.DONL = &v
					rest = rest[2:]
				} else {
					out.DONDs = append(out.DONDs, rest[0])
					rest = rest[1:]
				}
			}
			first = false
			if len(rest) < 2 {
				return nil, errors.New("AP: truncated size")
			}
			sz := int(binary.BigEndian.Uint16(rest))
			rest = rest[2:]
			if sz < 2 || sz > len(rest) {
				return nil, fmt.Errorf("AP: unit size %d does not fit in %d", sz, len(rest))
			}
			out.Units = append(out.Units, rest[:sz])
			rest = rest[sz:]
		}
		if len(out.Units) < 2 {
			return nil, errors.New("AP with fewer than two units")
		}
	case TypeFU:
		out.Kind = "fu"
		out.S, out.E, out.FuType = rest[0]&0x80 != 0, rest[0]&0x40 != 0, rest[0]&0x3F
		rest = rest[1:]
		if donl && out.S {
			if len(rest) < 2 {
				return nil, errors.New("FU: truncated DONL")
			}
			v := binary.BigEndian.Uint16(rest)
			out.DONL = &v
			rest = rest[2:]
		}
		if len(rest) == 0 {
			return nil, errors.New("FU without payload")
		}
		out.Fragment = rest
	case TypePACI:
		out.Kind = "paci"
		if len(rest) < 2 {
			return nil, errors.New("PACI: truncated fields")
		}
		v := binary.BigEndian.Uint16(rest)
		out.A, out.CType, out.PHSsize = v&0x8000 != 0, uint8(v>>9&0x3F), uint8(v>>4&0x1F)
		out.F0, out.F1, out.F2, out.Y = v&8 != 0, v&4 != 0, v&2 != 0, v&1 != 0
		rest = rest[2:]
		if len(rest) < int(out.PHSsize)+1 {
			return nil, errors.New("PACI: truncated PHES / payload")
		}
		out.PHES = rest[:out.PHSsize]
		out.PACIData = rest[out.PHSsize:]
	default:
		out.Kind = "single"
		if donl {
			if len(rest) < 3 {
				return nil, errors.New("single: truncated DONL / no payload")
			}
			v := binary.BigEndian.Uint16(rest)
			out.DONL = &v
			out.Unit = append([]byte{p[0], p[1]}, rest[2:]...)
		} else {
			out.Unit = p
		}
	}

	return out, nil
}

// Reasm reassembles NAL units.
type Reasm struct {
	DONL bool
	open bool
	hdr  Hdr
	buf  []byte
}

func (r *Reasm) Open() bool { return r.open }

// Push returns the units this payload completes.
func (r *Reasm) Push(p []byte) ([][]byte, *Payload, error) {
	pl, err := Parse(p, r.DONL)
	if err != nil {
		return nil, nil, err
	}
	switch pl.Kind {
	case "single":
		if r.open {
			return nil, pl, errors.New("single NAL unit packet inside an open FU train")
		}

		return [][]byte{pl.Unit}, pl, nil
	case "ap":
		if r.open {
			return nil, pl, errors.New("AP inside an open FU train")
		}

		return pl.Units, pl, nil
	case "fu":
		orig := Hdr{F: pl.Hdr.F, Type: pl.FuType, LayerID: pl.Hdr.LayerID, TID: pl.Hdr.TID}
		if pl.S {
			if r.open {
				return nil, pl, errors.New("FU start inside an open train")
			}
			r.open, r.hdr, r.buf = true, orig, nil
		} else if !r.open {
			return nil, pl, errors.New("FU continuation without start")
		}
		if r.hdr != orig {
			return nil, pl, errors.New("FUs of one unit disagree on F/type/layer/TID")
		}
		r.buf = append(r.buf, pl.Fragment...)
		if pl.E {
			hb := r.hdr.Bytes()
			u := append([]byte{hb[0], hb[1]}, r.buf...)
			r.open, r.buf = false, nil

			return [][]byte{u}, pl, nil
		}

		return nil, pl, nil
	}

	return nil, pl, errors.New("PACI not expected in a payloader stream")
}

// ---- encoder

func Single(nal []byte, donl *uint16) []byte {
	out := []byte{nal[0], nal[1]}
	if donl != nil {
		out = binary.BigEndian.AppendUint16(out, *donl)
	}

	return append(out, nal[2:]...)
}

// AP aggregates >= 2 units. donl != nil adds DONL to the first and dond[i-1] to unit i.
func AP(nals [][]byte, donl *uint16, dond []uint8) []byte {
	h := Hdr{Type: TypeAP, LayerID: 63, TID: 7}
	for _, n := range nals {
		nh := ParseHdr(n)
		if nh.LayerID < h.LayerID {
			h.LayerID = nh.LayerID
		}
		if nh.TID < h.TID {
			h.TID = nh.TID
		}
	}
	hb := h.Bytes()
	out := []byte{hb[0], hb[1]}
	for i, n := range nals {
		if donl != nil {
			if i == 0 {
				out = binary.BigEndian.AppendUint16(out, *donl)
			} else {
				out = append(out, dond[i-1])
			}
		}
		out = binary.BigEndian.AppendUint16(out, uint16(len(n)))
		out = append(out, n...)
	}

	return out
}

// FU fragments nal into FUs with the given fragment sizes (sum = len(nal)-2, >= 2 entries, all > 0).
func FU(nal []byte, sizes []int, donl *uint16) [][]byte {
	nh := ParseHdr(nal)
	ph := Hdr{F: nh.F, Type: TypeFU, LayerID: nh.LayerID, TID: nh.TID}.Bytes()
	body := nal[2:]
	var out [][]byte
	off := 0
	for i, sz := range sizes {
		fh := nh.Type & 0x3F
		if i == 0 {
			fh |= 0x80
		}
		if i == len(sizes)-1 {
			fh |= 0x40
		}
		p := []byte{ph[0], ph[1], fh}
		if i == 0 && donl != nil {
			p = binary.BigEndian.AppendUint16(p, *donl)
		}
		p = append(p, body[off:off+sz]...)
		off += sz
		out = append(out, p)
	}

	return out
}

// PACI builds a PACI packet. phes must be PHSsize bytes long.
func PACI(h Hdr, a bool, ctype, phssize uint8, f0, f1, f2, y bool, phes, payload []byte) []byte {
	h.Type = TypePACI
	hb := h.Bytes()
	var v uint16
	if a {
		v |= 0x8000
	}
	v |= uint16(ctype&0x3F) << 9
	v |= uint16(phssize&0x1F) << 4
	for i, b := range []bool{f0, f1, f2, y} {
		if b {
			v |= 1 << uint(3-i)
		}
	}
	out := []byte{hb[0], hb[1], byte(v >> 8), byte(v)}
	out = append(out, phes...)

	return append(out, payload...)
}
