// Package leb128 is an independent unsigned LEB128 codec (AV1 spec §4.10.5).
package leb128

import "errors"

// Encode returns the minimal encoding of v.
func Encode(v uint64) []byte {
	var out []byte
	for {
		b := byte(v & 0x7F)
		v >>= 7
		if v != 0 {
			out = append(out, b|0x80)
		} else {
			return append(out, b)
		}
	}
}

// EncodeN returns an encoding of v that is exactly n bytes long (n >= minimal
// length, <= 8): non-minimal encodings carry zero continuation groups.
func EncodeN(v uint64, n int) []byte {
	out := make([]byte, n)
	for i := 0; i < n; i++ {
		out[i] = byte(v & 0x7F)
		v >>= 7
		if i != n-1 {
			out[i] |= 0x80
		}
	}

	return out
}

// Decode reads one value; n is the number of bytes consumed.
func Decode(b []byte) (v uint64, n int, err error) {
	for i := 0; i < len(b) && i < 8; i++ {
		v |= uint64(b[i]&0x7F) << (7 * uint(i))
		if b[i]&0x80 == 0 {
			return v, i + 1, nil
		}
	}

	return 0, 0, errors.New("unterminated leb128")
}

// Decode64 reads one value of up to ten bytes (the whole 64-bit range; groups beyond bit 63 are rejected).
func Decode64(b []byte) (v uint64, n int, err error) {
	for i := 0; i < len(b) && i < 10; i++ {
		g := uint64(b[i] & 0x7F)
		if i == 9 && g > 1 {
			return 0, 0, errors.New("leb128 value exceeds 64 bits")
		}
		v |= g << (7 * uint(i))
		if b[i]&0x80 == 0 {
			return v, i + 1, nil
		}
	}

	return 0, 0, errors.New("unterminated leb128")
}

// Size is the minimal encoded size of v.
func Size(v uint64) int { return len(Encode(v)) }
