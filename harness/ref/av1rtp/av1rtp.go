// Package av1rtp is an independent model of the AV1 RTP payload format
// (aomediacodec.github.io/av1-rtp-spec §4.4 aggregation header, §4.5 OBU elements)
// and of the OBU header (AV1 bitstream spec §5.3.2/5.3.3).
package av1rtp

import (
	"errors"
	"fmt"

	"verifharness/ref/leb128"
)

// OBUHdr is a parsed OBU header.
type OBUHdr struct {
	Forbidden bool
	Type      uint8
	HasExt    bool
	HasSize   bool
	Rsv1      bool
	TID       uint8
	SID       uint8
	ExtRsv    uint8
	Len       int // 1 or 2
}

func ParseOBUHdr(b []byte) (OBUHdr, error) {
	if len(b) < 1 {
		return OBUHdr{}, errors.New("empty OBU")
	}
	h := OBUHdr{Forbidden: b[0]&0x80 != 0, Type: b[0] >> 3 & 0x0F, HasExt: b[0]&4 != 0, HasSize: b[0]&2 != 0, Rsv1: b[0]&1 != 0, Len: 1}
	if h.HasExt {
		if len(b) < 2 {
			return h, errors.New("OBU extension header missing")
		}
		h.TID, h.SID, h.ExtRsv, h.Len = b[1]>>5, b[1]>>3&3, b[1]&7, 2
	}

	return h, nil
}

func (h OBUHdr) Bytes() []byte {
	b := h.Type&0x0F<<3 | 0
	if h.Forbidden {
		b |= 0x80
	}
	if h.HasExt {
		b |= 4
	}
	if h.HasSize {
		b |= 2
	}
	if h.Rsv1 {
		b |= 1
	}
	if h.HasExt {
		return []byte{b, h.TID<<5 | h.SID&3<<3 | h.ExtRsv&7}
	}

	return []byte{b}
}

// Packet is one parsed RTP payload.
type Packet struct {
	Z, Y, N  bool
	W        uint8
	Elements [][]byte
}

// ParsePacket splits a payload into its OBU elements.
func ParsePacket(p []byte) (*Packet, error) {
	if len(p) < 1 {
		return nil, errors.New("empty payload")
	}
	pk := &Packet{Z: p[0]&0x80 != 0, Y: p[0]&0x40 != 0, W: p[0] >> 4 & 3, N: p[0]&8 != 0}
	if p[0]&7 != 0 {
		return nil, errors.New("reserved bits of the aggregation header set")
	}
	rest := p[1:]
	for i := 1; len(rest) > 0; i++ {
		var el []byte
		if pk.W != 0 && i == int(pk.W) {
			el, rest = rest, nil
		} else {
			v, n, err := leb128.Decode(rest)
			if err != nil {
				return nil, fmt.Errorf("element %d: %v", i, err)
			}
			if int(v) > len(rest)-n {
				return nil, fmt.Errorf("element %d: length %d exceeds the %d remaining bytes", i, v, len(rest)-n)
			}
			el, rest = rest[n:n+int(v)], rest[n+int(v):]
		}
		pk.Elements = append(pk.Elements, el)
		if pk.W != 0 && i == int(pk.W) {
			break
		}
	}
	if pk.W != 0 && len(pk.Elements) != int(pk.W) {
		return nil, fmt.Errorf("W=%d but %d elements", pk.W, len(pk.Elements))
	}
	if len(pk.Elements) == 0 {
		return nil, errors.New("packet without OBU element")
	}

	return pk, nil
}

// Reasm reassembles OBUs (as transmitted, without size field) from packets.
type Reasm struct {
	Pending []byte
	open    bool
}

func (r *Reasm) Open() bool { return r.open }

// Push returns the OBUs completed by pk.
func (r *Reasm) Push(pk *Packet) ([][]byte, error) {
	if pk.Z != r.open {
		return nil, fmt.Errorf("Z=%v but the previous packet had Y=%v", pk.Z, r.open)
	}
	var out [][]byte
	for i, el := range pk.Elements {
		data := el
		if i == 0 && pk.Z && len(pk.Elements) == 1 && pk.Y {
			// middle fragment: keep accumulating without re-copying
			r.Pending = append(r.Pending, el...)

			break
		}
		if i == 0 && pk.Z {
			data = append(r.Pending, el...)
			r.Pending, r.open = nil, false
		}
		if i == len(pk.Elements)-1 && pk.Y {
			r.Pending, r.open = append([]byte{}, data...), true

			break
		}
		out = append(out, data)
	}

	return out, nil
}

// Pack is an independent AV1 RTP encoder. obus are complete OBUs as transmitted (header with the
// size flag cleared, optional extension byte, body). Every packet takes at most room bytes of OBU
// data (excluding the aggregation header and length prefixes); useW[k % len(useW)] selects the form
// of packet k: 0 = W=0 with every element length-prefixed, otherwise W = element count (at most 3
// elements, the last without length prefix). n sets the N bit of the first packet.
func Pack(obus [][]byte, room int, useW []int, n bool) [][]byte {
	if room < 1 {
		room = 1
	}
	if len(useW) == 0 {
		useW = []int{1}
	}
	var out [][]byte
	oi, off := 0, 0 // current OBU and offset into it
	for k := 0; oi < len(obus); k++ {
		counted := useW[k%len(useW)] != 0
		var els [][]byte
		z := off > 0
		y := false
		left := room
		for oi < len(obus) && left > 0 && (!counted || len(els) < 3) {
			rest := obus[oi][off:]
			if len(rest) <= left {
				els = append(els, rest)
				left -= len(rest)
				oi, off = oi+1, 0

				continue
			}
			els = append(els, rest[:left])
			off += left
			left = 0
			y = true
		}
		hdr := byte(0)
		if z {
			hdr |= 0x80
		}
		if y {
			hdr |= 0x40
		}
		if counted {
			hdr |= byte(len(els)) << 4
		}
		if n && k == 0 {
			hdr |= 8
		}
		p := []byte{hdr}
		for i, el := range els {
			if !counted || i < len(els)-1 {
				p = append(p, leb128.Encode(uint64(len(el)))...)
			}
			p = append(p, el...)
		}
		out = append(out, p)
	}

	return out
}
