// Package vp9desc is an independent model of the VP9 RTP payload descriptor
// (RFC 9628 §4.2, formerly draft-ietf-payload-vp9):
//
//	|I|P|L|F|B|E|V|Z|
//	I: |M| PICTURE ID | (+ extended octet when M=1)
//	L: | TID |U| SID |D|  (+ TL0PICIDX when F=0)
//	P,F: | P_DIFF |N|  up to 3 times
//	V: | N_S |Y|G|-|-|-|, N_S+1 x (WIDTH16, HEIGHT16) when Y, N_G when G,
//	   N_G x ( | TID |U| R |-|-| , R x P_DIFF )
package vp9desc

import "errors"

type PG struct {
	TID   uint8
	U     bool
	PDiff []uint8 // 0..3 entries (R)
	Rsv   uint8   // low 2 reserved bits
}

type Desc struct {
	I, P, L, F, B, E, V, Z bool
	M                      bool // 15-bit picture id
	PictureID              uint16
	TID                    uint8
	U                      bool
	SID                    uint8
	D                      bool
	TL0PICIDX              uint8
	PDiff                  []uint8 // 1..3 entries when P&&F
	NS                     uint8   // N_S (spatial layers - 1)
	Y, G                   bool
	SSRsv                  uint8 // low 3 reserved bits of the SS octet
	Width, Height          []uint16
	PGs                    []PG // N_G entries (only when G)
}

func bit(b bool, s uint) byte {
	if b {
		return 1 << s
	}

	return 0
}

// Build serialises the descriptor.
func Build(d *Desc) []byte {
	out := []byte{bit(d.I, 7) | bit(d.P, 6) | bit(d.L, 5) | bit(d.F, 4) | bit(d.B, 3) | bit(d.E, 2) | bit(d.V, 1) | bit(d.Z, 0)}
	if d.I {
		if d.M {
			out = append(out, 0x80|byte(d.PictureID>>8)&0x7F, byte(d.PictureID))
		} else {
			out = append(out, byte(d.PictureID)&0x7F)
		}
	}
	if d.L {
		out = append(out, d.TID<<5|bit(d.U, 4)|(d.SID&7)<<1|bit(d.D, 0))
		if !d.F {
			out = append(out, d.TL0PICIDX)
		}
	}
	if d.F && d.P {
		for i, pd := range d.PDiff {
			out = append(out, pd<<1|bit(i != len(d.PDiff)-1, 0))
		}
	}
	if d.V {
		out = append(out, d.NS<<5|bit(d.Y, 4)|bit(d.G, 3)|d.SSRsv&7)
		if d.Y {
			for i := 0; i <= int(d.NS); i++ {
				out = append(out, byte(d.Width[i]>>8), byte(d.Width[i]), byte(d.Height[i]>>8), byte(d.Height[i]))
			}
		}
		if d.G {
			out = append(out, byte(len(d.PGs)))
			for _, g := range d.PGs {
				out = append(out, g.TID<<5|bit(g.U, 4)|byte(len(g.PDiff))<<2|g.Rsv&3)
				out = append(out, g.PDiff...)
			}
		}
	}

	return out
}

// Parse reads a descriptor; Len is its length.
func Parse(b []byte) (*Desc, int, error) {
	short := errors.New("descriptor cut short")
	if len(b) < 1 {
		return nil, 0, short
	}
	d := &Desc{I: b[0]&0x80 != 0, P: b[0]&0x40 != 0, L: b[0]&0x20 != 0, F: b[0]&0x10 != 0, B: b[0]&8 != 0, E: b[0]&4 != 0, V: b[0]&2 != 0, Z: b[0]&1 != 0}
	i := 1
	need := func(k int) bool { return len(b) >= i+k }
	if d.I {
		if !need(1) {
			return nil, 0, short
		}
		if b[i]&0x80 != 0 {
			if !need(2) {
				return nil, 0, short
			}
			d.M = true
			d.PictureID = uint16(b[i]&0x7F)<<8 | uint16(b[i+1])
			i += 2
		} else {
			d.PictureID = uint16(b[i])
			i++
		}
	}
	if d.L {
		if !need(1) {
			return nil, 0, short
		}
		d.TID, d.U, d.SID, d.D = b[i]>>5, b[i]&0x10 != 0, b[i]>>1&7, b[i]&1 != 0
		i++
		if !d.F {
			if !need(1) {
				return nil, 0, short
			}
			d.TL0PICIDX = b[i]
			i++
		}
	}
	if d.F && d.P {
		for {
			if !need(1) {
				return nil, 0, short
			}
			d.PDiff = append(d.PDiff, b[i]>>1)
			more := b[i]&1 != 0
			i++
			if !more {
				break
			}
			if len(d.PDiff) == 3 {
				return nil, 0, errors.New("more than three reference indices")
			}
		}
	}
	if d.V {
		if !need(1) {
			return nil, 0, short
		}
		d.NS, d.Y, d.G, d.SSRsv = b[i]>>5, b[i]&0x10 != 0, b[i]&8 != 0, b[i]&7
		i++
		if d.Y {
			for k := 0; k <= int(d.NS); k++ {
				if !need(4) {
					return nil, 0, short
				}
				d.Width = append(d.Width, uint16(b[i])<<8|uint16(b[i+1]))
				d.Height = append(d.Height, uint16(b[i+2])<<8|uint16(b[i+3]))
				i += 4
			}
		}
		if d.G {
			if !need(1) {
				return nil, 0, short
			}
			ng := int(b[i])
			i++
			for k := 0; k < ng; k++ {
				if !need(1) {
					return nil, 0, short
				}
				g := PG{TID: b[i] >> 5, U: b[i]&0x10 != 0, Rsv: b[i] & 3}
				r := int(b[i] >> 2 & 3)
				i++
				if !need(r) {
					return nil, 0, short
				}
				g.PDiff = append([]uint8{}, b[i:i+r]...)
				i += r
				d.PGs = append(d.PGs, g)
			}
		}
	}

	return d, i, nil
}
