// Package ntp is an exact (big.Int) model of the NTP 32.32 timestamp format
// (RFC 5905 §6, era 0) and of the 24-bit 6.18 abs-send-time field. It shares no
// code with pion/rtp.
package ntp

import "math/big"

// EpochOffset is the number of seconds between 1900-01-01 and 1970-01-01.
const EpochOffset = 2208988800

var (
	e9   = big.NewInt(1_000_000_000)
	two  = big.NewInt(2)
	p32  = new(big.Int).Lsh(big.NewInt(1), 32)
	p18  = new(big.Int).Lsh(big.NewInt(1), 18)
	p24  = new(big.Int).Lsh(big.NewInt(1), 24)
	eoff = big.NewInt(EpochOffset)
)

// scaled returns floor((unixNs/1e9 + EpochOffset) * scale).
func scaled(unixNs int64, scale *big.Int) *big.Int {
	n := big.NewInt(unixNs)
	n.Add(n, new(big.Int).Mul(eoff, e9)) // ns since 1900
	n.Mul(n, scale)
	q, m := new(big.Int).DivMod(n, e9, new(big.Int))
	_ = m

	return q
}

// NTP64Floor is the 32.32 timestamp of the instant, fraction truncated.
func NTP64Floor(unixNs int64) uint64 {
	return new(big.Int).And(scaled(unixNs, p32), new(big.Int).SetUint64(^uint64(0))).Uint64()
}

// Abs24Floor is the 24-bit 6.18 abs-send-time value of the instant, truncated.
func Abs24Floor(unixNs int64) uint32 {
	return uint32(new(big.Int).Mod(scaled(unixNs, p18), p24).Uint64())
}

// NsOfNTP64 returns the instant (ns since the Unix epoch) of a 32.32 timestamp as
// an exact rational floor and whether it was exact: floor((ntp/2^32 - EpochOffset)*1e9).
func NsOfNTP64(ntp uint64) int64 {
	n := new(big.Int).SetUint64(ntp)
	n.Mul(n, e9)
	q := new(big.Int).Div(n, p32) // floor ns since 1900
	q.Sub(q, new(big.Int).Mul(eoff, e9))

	return q.Int64()
}

// NsOfQ32 converts a signed 32.32 fixed-point number of seconds to nanoseconds,
// truncated toward zero.
func NsOfQ32(v int64) int64 {
	n := big.NewInt(v)
	n.Mul(n, e9)
	q := new(big.Int).Quo(n, p32) // truncates toward zero

	return q.Int64()
}

var _ = two
