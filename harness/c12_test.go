package harness

// C12 — VP9 packetization is lossless and its descriptor decodes per the VP9 RTP spec.

import (
	"bytes"
	"fmt"
	"strings"
	"testing"

	"github.com/pion/rtp/codecs"
	"github.com/pion/rtp/codecs/vp9"
	"pgregory.net/rapid"

	"verifharness/ref/vp9desc"
	"verifharness/ref/vp9hdr"
)

type VP9Frame struct {
	H       vp9hdr.Header `json:"h"`
	BodyLen int           `json:"body_len"` // random bytes after the generated header prefix
	Seed    uint64        `json:"seed"`
	Toggle  bool          `json:"toggle,omitempty"` // the public FlexibleMode field is flipped before this frame; the picture id keeps running
	MTU     uint16        `json:"mtu,omitempty"`    // 0 = the case's MTU
	// EmptyBefore: an empty (1) or nil (2) buffer is handed to the payloader before this frame (the encoder dropped a
	// frame): no packets; whether that call uses up a picture id is left open, the next frame's id is learned anew
	EmptyBefore int `json:"empty_before,omitempty"`
}

func (f *VP9Frame) bytes() ([]byte, int) {
	hb, nbit := vp9hdr.Write(&f.H)
	body := expand(f.Seed, 0, f.BodyLen+1)
	if nbit%8 != 0 {
		// unused bits of the last header octet carry compressed data: fill with garbage
		hb[len(hb)-1] |= body[0] & (0xFF >> uint(nbit%8))
	}

	return append(hb, body[1:]...), nbit
}

type VP9PayCase struct {
	Flexible    bool       `json:"flexible"`
	InitialID   uint16     `json:"initial_id"`
	MTU         uint16     `json:"mtu"`
	Frames      []VP9Frame `json:"frames"`
	DefaultID   bool       `json:"default_id,omitempty"`   // InitialPictureIDFn left nil: the start id is the library\'s (random) choice, learned from the first packet
	OneReceiver bool       `json:"one_receiver,omitempty"` // the whole stream is decoded by one VP9Packet, not a fresh one per packet
}

type VP9DescCase struct {
	D       vp9desc.Desc `json:"d"`
	Payload HexBytes     `json:"payload"`
	Cut     int          `json:"cut"`
	// Pre: descriptors (each followed by two payload bytes) decoded earlier into the SAME VP9Packet;
	// the reading of this one must not depend on them
	Pre []vp9desc.Desc `json:"pre,omitempty"`
	// Zero: zero-allocation mode (reduced feature set): well-formed packets accepted, bytes after the descriptor returned
	Zero bool `json:"zero,omitempty"`
	// Jumbo: this many further payload bytes follow (packets of 64 KiB and more: an RTP packet over TCP or a jumbo datagram)
	Jumbo int `json:"jumbo,omitempty"`
}

type VP9HdrCase struct {
	H     vp9hdr.Header `json:"h"`
	Extra HexBytes      `json:"extra"`
}

var (
	subC12Pay  = register("C12", "payloader", checkC12Pay)
	subC12Desc = register("C12", "descriptor", checkC12Desc)
	subC12Hdr  = register("C12", "header", checkC12Hdr)
)

func checkC12Pay(r *run, c *VP9PayCase) (CaseInfo, error) {
	var ci CaseInfo
	init := c.InitialID
	p := &codecs.VP9Payloader{FlexibleMode: c.Flexible, InitialPictureIDFn: func() uint16 { return init }}
	id := c.InitialID & 0x7FFF
	learnID := false
	if c.DefaultID {
		p.InitialPictureIDFn = nil
		learnID = true
		ci.class("default-initial-picture-id")
	}
	var stream codecs.VP9Packet
	if c.Flexible {
		ci.class("flexible")
	} else {
		ci.class("non-flexible")
	}
	flex := c.Flexible
	for fi := range c.Frames {
		f := &c.Frames[fi]
		mtu := c.MTU
		if f.MTU != 0 {
			mtu = f.MTU // this frame is sent with another MTU than the previous ones
			ci.class("mtu-changes-between-frames")
		}
		if f.Toggle {
			flex = !flex
			p.FlexibleMode = flex
			ci.class("mode-toggled-mid-stream")
		}
		if f.EmptyBefore != 0 {
			var none []byte
			if f.EmptyBefore == 1 {
				none = []byte{}
			}
			if out := p.Payload(mtu, none); len(out) != 0 {
				return ci, failf("frame %d: an empty buffer produced %d packets", fi, len(out))
			}
			learnID = true
			ci.class("empty-call-interleaved")
		}
		frame, _ := f.bytes()
		orig := clone(frame)
		pkts := p.Payload(mtu, frame)
		if !bytes.Equal(frame, orig) {
			return ci, failf("frame %d: payloader modified its input", fi)
		}
		if len(pkts) == 0 {
			return ci, failf("frame %d (%d bytes, mtu %d, key=%v): no packets", fi, len(frame), mtu, !f.H.NonKey)
		}
		key := !f.H.NonKey && !f.H.ShowExistingFrame
		var cat []byte
		var parts [][]byte // the payload slices as returned, read again once the whole frame is decoded
		for pi, pk := range pkts {
			what := fmt.Sprintf("frame %d (%d bytes, mtu %d, flexible=%v, key=%v, profile %d, cs %d) packet %d/%d %s", fi, len(frame), mtu, flex, key, f.H.Profile, f.H.ColorSpace, pi, len(pkts), hx(pk))
			if len(pk) > int(mtu) {
				return ci, failf("%s: %d bytes exceed the MTU", what, len(pk))
			}
			vp := &codecs.VP9Packet{}
			if c.OneReceiver {
				vp = &stream
				ci.class("stream-through-one-receiver")
			}
			payload, err := vp.Unmarshal(pk)
			if err != nil {
				return ci, failf("%s: VP9Packet rejects it: %v", what, err)
			}
			d, dl, err := vp9desc.Parse(pk)
			if err != nil {
				return ci, failf("%s: reference parser rejects it: %v", what, err)
			}
			if !bytes.Equal(payload, pk[dl:]) {
				return ci, failf("%s: VP9Packet payload %s, reference says the descriptor is %d bytes", what, hx(payload), dl)
			}
			if len(payload) == 0 {
				return ci, failf("%s: empty payload", what)
			}
			if absent := vp9Absent(vp); absent != "" {
				return ci, failf("%s: decoded with fields the descriptor does not carry: %s (one receiver for the stream: %v)", what, absent, c.OneReceiver)
			}
			cat = append(cat, payload...)
			parts = append(parts, payload)
			first, last := pi == 0, pi == len(pkts)-1
			if d.B != first || d.E != last || vp.B != first || vp.E != last {
				return ci, failf("%s: B=%v E=%v, want B=%v E=%v", what, d.B, d.E, first, last)
			}
			if vp.IsPartitionHead(pk) != first || (&codecs.VP9PartitionHeadChecker{}).IsPartitionHead(pk) != first {
				return ci, failf("%s: IsPartitionHead=%v", what, vp.IsPartitionHead(pk))
			}
			if d.F != flex {
				return ci, failf("%s: F=%v", what, d.F)
			}
			if learnID {
				id, learnID = d.PictureID, false
			}
			if !d.I || !d.M || d.PictureID != id || vp.PictureID != id {
				return ci, failf("%s: I=%v M=%v picture id %d (VP9Packet %d), want the 15-bit id %d", what, d.I, d.M, d.PictureID, vp.PictureID, id)
			}
			if !flex && !f.H.ShowExistingFrame {
				if d.P != f.H.NonKey {
					return ci, failf("%s: P=%v for a frame with non-key=%v", what, d.P, f.H.NonKey)
				}
				wantV := key && first
				if d.V != wantV {
					return ci, failf("%s: V=%v, want %v", what, d.V, wantV)
				}
				if wantV {
					if !d.Y || len(d.Width) < 1 || len(vp.Width) < 1 {
						return ci, failf("%s: scalability structure without resolution (Y=%v)", what, d.Y)
					}
					ww, wh := f.H.WidthMinus1+1, f.H.HeightMinus1+1
					if d.Width[0] != ww || d.Height[0] != wh || vp.Width[0] != ww || vp.Height[0] != wh {
						return ci, failf("%s: scalability structure says %dx%d, the uncompressed header codes %dx%d", what, d.Width[0], d.Height[0], ww, wh)
					}
				}
			}
		}
		if !bytes.Equal(cat, orig) {
			return ci, failf("frame %d (%d bytes, mtu %d): payloads concatenate to %d bytes that differ from the frame", fi, len(frame), mtu, len(cat))
		}
		if joined := bytes.Join(parts, nil); !bytes.Equal(joined, orig) {
			return ci, failf("frame %d (%d bytes, mtu %d): the payload slices returned for its %d packets, read again after the last packet was decoded, no longer concatenate to the frame (a receiver collecting them gets %d wrong bytes)", fi, len(frame), mtu, len(parts), len(joined))
		}
		// the frame is sent, the caller recycles the packet buffers (capacity included): later frames must not depend on them
		for _, pk := range pkts {
			for k, full := 0, pk[:cap(pk)]; k < len(full); k++ {
				full[k] ^= 0xFF
			}
		}
		if len(pkts) >= 2 {
			ci.class("multi-packet")
			ci.Nontrivial = true
		}
		if key && !flex && (f.H.Profile >= 1 || f.H.ColorSpace == 7) {
			ci.class("key-frame-profile>=1-or-rgb")
			ci.Nontrivial = true
		}
		if id == 0x7FFF {
			ci.class("id-wraps")
		}
		id = (id + 1) & 0x7FFF
	}

	return ci, nil
}

func vp9Obs(d *vp9desc.Desc) string {
	s := fmt.Sprintf("I%v P%v L%v F%v B%v E%v V%v Z%v pic%d", d.I, d.P, d.L, d.F, d.B, d.E, d.V, d.Z, d.PictureID)
	if d.L {
		s += fmt.Sprintf(" tid%d u%v sid%d d%v tl0%d", d.TID, d.U, d.SID, d.D, d.TL0PICIDX)
	}
	if d.F && d.P {
		s += fmt.Sprintf(" pdiff%v", d.PDiff)
	}
	if d.V {
		s += fmt.Sprintf(" ns%d y%v g%v", d.NS, d.Y, d.G)
		if d.Y {
			s += fmt.Sprintf(" w%v h%v", d.Width, d.Height)
		}
		if d.G {
			s += fmt.Sprintf(" ng%d", len(d.PGs))
			for _, g := range d.PGs {
				s += fmt.Sprintf(" (%d %v %v)", g.TID, g.U, g.PDiff)
			}
		}
	}

	return s
}

func vp9LibObs(p *codecs.VP9Packet) string {
	s := fmt.Sprintf("I%v P%v L%v F%v B%v E%v V%v Z%v pic%d", p.I, p.P, p.L, p.F, p.B, p.E, p.V, p.Z, p.PictureID)
	if p.L {
		s += fmt.Sprintf(" tid%d u%v sid%d d%v tl0%d", p.TID, p.U, p.SID, p.D, p.TL0PICIDX)
	}
	if p.F && p.P {
		s += fmt.Sprintf(" pdiff%v", p.PDiff)
	}
	if p.V {
		s += fmt.Sprintf(" ns%d y%v g%v", p.NS, p.Y, p.G)
		if p.Y {
			s += fmt.Sprintf(" w%v h%v", p.Width, p.Height)
		}
		if p.G {
			s += fmt.Sprintf(" ng%d", p.NG)
			for i := 0; i < int(p.NG) && i < len(p.PGTID) && i < len(p.PGU) && i < len(p.PGPDiff); i++ {
				s += fmt.Sprintf(" (%d %v %v)", p.PGTID[i], p.PGU[i], p.PGPDiff[i])
			}
		}
	}

	return s
}

// vp9Absent names the fields of a decoded VP9Packet that hold a value although the flags of the same packet say the
// descriptor did not carry them.
func vp9Absent(p *codecs.VP9Packet) string {
	var bad []string
	if !p.I && p.PictureID != 0 {
		bad = append(bad, fmt.Sprintf("PictureID=%d without I", p.PictureID))
	}
	if !p.L && (p.TID != 0 || p.U || p.SID != 0 || p.D || p.TL0PICIDX != 0) {
		bad = append(bad, fmt.Sprintf("layer indices tid%d u%v sid%d d%v tl0%d without L", p.TID, p.U, p.SID, p.D, p.TL0PICIDX))
	}
	if p.L && p.F && p.TL0PICIDX != 0 {
		bad = append(bad, fmt.Sprintf("TL0PICIDX=%d in flexible mode", p.TL0PICIDX))
	}
	if !(p.F && p.P) && len(p.PDiff) != 0 {
		bad = append(bad, fmt.Sprintf("PDiff=%v without F and P", p.PDiff))
	}
	if !p.V && (p.NS != 0 || p.Y || p.G || p.NG != 0) {
		bad = append(bad, fmt.Sprintf("ns%d y%v g%v ng%d without V", p.NS, p.Y, p.G, p.NG))
	}
	if !(p.V && p.Y) && (len(p.Width) != 0 || len(p.Height) != 0) {
		bad = append(bad, fmt.Sprintf("w%v h%v without V and Y", p.Width, p.Height))
	}
	if !(p.V && p.G) && (p.NG != 0 || len(p.PGTID) != 0 || len(p.PGU) != 0 || len(p.PGPDiff) != 0) {
		bad = append(bad, fmt.Sprintf("ng%d and %d/%d/%d picture group entries without V and G", p.NG, len(p.PGTID), len(p.PGU), len(p.PGPDiff)))
	}

	return strings.Join(bad, "; ")
}

func checkC12Desc(r *run, c *VP9DescCase) (CaseInfo, error) {
	var ci CaseInfo
	db := vp9desc.Build(&c.D)
	// self-check of the trusted base
	if back, n, err := vp9desc.Parse(db); err != nil || n != len(db) || vp9Obs(back) != vp9Obs(&c.D) {
		return ci, failf("harness bug: reference VP9 descriptor codec does not round-trip %s: %v", hx(db), err)
	}
	full := append(clone(db), c.Payload...)
	if c.Jumbo > 0 {
		full = append(full, expand(uint64(c.Jumbo), 0, c.Jumbo)...)
		ci.class("jumbo-payload")
	}
	in := full
	if c.Cut >= 0 && c.Cut < len(full) {
		in = full[:c.Cut]
	}
	if c.D.V && c.D.G && len(c.D.PGs) > 0 {
		ci.class("ss-with-picture-groups")
	}
	if c.D.F && c.D.P {
		ci.class(fmt.Sprintf("pdiff:%d", len(c.D.PDiff)))
	}
	ci.Nontrivial = (c.D.V && c.D.G && len(c.D.PGs) > 0) || len(in) < len(db) || (c.D.F && c.D.P && len(c.D.PDiff) >= 2)
	var vp codecs.VP9Packet
	if c.Zero {
		vp.SetZeroAllocation(true)
		ci.class("zero-allocation-mode")
	}
	for i := range c.Pre {
		_, _ = vp.Unmarshal(append(vp9desc.Build(&c.Pre[i]), 0xAB, 0xCD))
		ci.class("receiver-used-before")
	}
	arg := clone(in)
	if len(in) == 0 {
		arg = []byte{}
	}
	payload, err := vp.Unmarshal(arg)
	if len(in) < len(db) {
		ci.class("truncated-descriptor")
		if err == nil && !c.Zero {
			return ci, failf("descriptor %s cut to %d bytes is accepted", hx(db), len(in))
		}

		return ci, nil
	}
	if len(in) == len(db) {
		ci.class("descriptor-only") // complete descriptor, no payload byte: decoded like any other
	}
	if err != nil {
		return ci, failf("well-formed descriptor %s (%s) + %d payload bytes rejected: %v", hx(db), vp9Obs(&c.D), len(in)-len(db), err)
	}
	if !bytes.Equal(payload, in[len(db):]) || !bytes.Equal(vp.Payload, in[len(db):]) {
		return ci, failf("descriptor %s: returned payload %s, want %s", hx(db), hx(payload), hx(in[len(db):]))
	}
	if c.Zero {
		return ci, nil
	}
	if got, want := vp9LibObs(&vp), vp9Obs(&c.D); got != want {
		return ci, failf("descriptor %s decoded as\n  %s\nwant\n  %s", hx(db), got, want)
	}
	// "exactly the encoded values" includes the fields the descriptor does not carry: a receiver (fresh, or used for
	// other descriptors before) reports none of them - no reference index, no layer index, no scalability structure
	if absent := vp9Absent(&vp); absent != "" {
		return ci, failf("descriptor %s (%s) decoded with fields it does not carry: %s (receiver used before: %v)", hx(db), vp9Obs(&c.D), absent, len(c.Pre) > 0)
	}
	if c.D.V && c.D.G && (len(vp.PGTID) != len(c.D.PGs) || len(vp.PGU) != len(c.D.PGs) || len(vp.PGPDiff) != len(c.D.PGs)) {
		return ci, failf("descriptor %s: %d picture groups decoded into %d/%d/%d entries", hx(db), len(c.D.PGs), len(vp.PGTID), len(vp.PGU), len(vp.PGPDiff))
	}
	if vp.IsPartitionHead(in) != c.D.B {
		return ci, failf("descriptor %s: IsPartitionHead=%v, B=%v", hx(db), vp.IsPartitionHead(in), c.D.B)
	}

	return ci, nil
}

func checkC12Hdr(r *run, c *VP9HdrCase) (CaseInfo, error) {
	var ci CaseInfo
	hb, nbit := vp9hdr.Write(&c.H)
	need := (nbit + 7) / 8
	in := append(clone(hb), c.Extra...)
	ci.class(fmt.Sprintf("profile:%d", c.H.Profile))
	if !c.H.NonKey && !c.H.ShowExistingFrame {
		ci.class(fmt.Sprintf("key cs:%d", c.H.ColorSpace))
		ci.Nontrivial = true
	}
	var h vp9.Header
	if err := h.Unmarshal(in); err != nil {
		return ci, failf("well-formed uncompressed header %s (%+v) rejected: %v", hx(in), c.H, err)
	}
	if h.Profile != c.H.Profile || h.ShowExistingFrame != c.H.ShowExistingFrame {
		return ci, failf("header %s: profile %d show_existing %v, want %d %v", hx(in), h.Profile, h.ShowExistingFrame, c.H.Profile, c.H.ShowExistingFrame)
	}
	if c.H.ShowExistingFrame {
		if h.FrameToShowMapIdx != c.H.FrameToShow&7 {
			return ci, failf("header %s: frame_to_show_map_idx %d, want %d", hx(in), h.FrameToShowMapIdx, c.H.FrameToShow&7)
		}
	} else {
		if h.NonKeyFrame != c.H.NonKey || h.ShowFrame != c.H.ShowFrame || h.ErrorResilientMode != c.H.ErrorRes {
			return ci, failf("header %s: non_key %v show %v error_res %v, want %v %v %v", hx(in), h.NonKeyFrame, h.ShowFrame, h.ErrorResilientMode, c.H.NonKey, c.H.ShowFrame, c.H.ErrorRes)
		}
		if !c.H.NonKey {
			if h.ColorConfig == nil || h.FrameSize == nil {
				return ci, failf("header %s: key frame without colour config / frame size", hx(in))
			}
			cc := h.ColorConfig
			wantDepth := uint8(8)
			if c.H.Profile >= 2 {
				wantDepth = 10
				if c.H.TenOrTwelve {
					wantDepth = 12
				}
			}
			if cc.ColorSpace != c.H.ColorSpace&7 || cc.BitDepth != wantDepth {
				return ci, failf("header %s: colour space %d depth %d, want %d %d", hx(in), cc.ColorSpace, cc.BitDepth, c.H.ColorSpace&7, wantDepth)
			}
			odd := c.H.Profile == 1 || c.H.Profile == 3
			if c.H.ColorSpace&7 != 7 {
				if cc.ColorRange != c.H.ColorRange {
					return ci, failf("header %s: colour range %v, want %v", hx(in), cc.ColorRange, c.H.ColorRange)
				}
				if odd && (cc.SubsamplingX != c.H.SubX || cc.SubsamplingY != c.H.SubY) {
					return ci, failf("header %s: subsampling %v/%v, want %v/%v", hx(in), cc.SubsamplingX, cc.SubsamplingY, c.H.SubX, c.H.SubY)
				}
				if !odd && (!cc.SubsamplingX || !cc.SubsamplingY) {
					return ci, failf("header %s: profile %d implies 4:2:0, got %v/%v", hx(in), c.H.Profile, cc.SubsamplingX, cc.SubsamplingY)
				}
			} else if odd && (cc.SubsamplingX || cc.SubsamplingY || !cc.ColorRange) {
				return ci, failf("header %s: RGB implies 4:4:4 full range, got %v/%v range %v", hx(in), cc.SubsamplingX, cc.SubsamplingY, cc.ColorRange)
			}
			if h.FrameSize.FrameWidthMinus1 != c.H.WidthMinus1 || h.FrameSize.FrameHeightMinus1 != c.H.HeightMinus1 {
				return ci, failf("header %s: size-1 %dx%d, want %dx%d", hx(in), h.FrameSize.FrameWidthMinus1, h.FrameSize.FrameHeightMinus1, c.H.WidthMinus1, c.H.HeightMinus1)
			}
			if c.H.WidthMinus1 < 65535 && c.H.HeightMinus1 < 65535 && (h.Width() != c.H.WidthMinus1+1 || h.Height() != c.H.HeightMinus1+1) {
				return ci, failf("header %s: Width()/Height() %dx%d", hx(in), h.Width(), h.Height())
			}
		}
	}
	// every byte prefix that lacks required bits must be rejected
	for k := 0; k < need; k++ {
		var hh vp9.Header
		if err := hh.Unmarshal(clone(in[:k])); err == nil {
			return ci, failf("header %s needs %d bits but its %d-byte prefix is accepted", hx(hb), nbit, k)
		}
	}

	return ci, nil
}

func genVP9Hdr(t *rapid.T, forceKey int) vp9hdr.Header {
	h := vp9hdr.Header{
		Profile:      uint8(rapid.IntRange(0, 3).Draw(t, "profile")),
		ShowFrame:    genBool(t, "show"),
		ErrorRes:     genBool(t, "errres"),
		TenOrTwelve:  genBool(t, "tenortwelve"),
		ColorSpace:   uint8(rapid.SampledFrom([]int{0, 1, 2, 3, 4, 5, 6, 7, 7, 2}).Draw(t, "cs")),
		ColorRange:   genBool(t, "range"),
		SubX:         genBool(t, "subx"),
		SubY:         genBool(t, "suby"),
		ReservedBits: rapid.IntRange(0, 3).Draw(t, "reserved") == 0,
		FrameToShow:  uint8(rapid.IntRange(0, 7).Draw(t, "toshow")),
	}
	switch forceKey {
	case 1:
		h.NonKey = false
	case 2:
		h.NonKey = true
	default:
		h.NonKey = genBool(t, "nonkey")
		h.ShowExistingFrame = rapid.IntRange(0, 9).Draw(t, "showexisting") == 0
	}
	h.WidthMinus1 = uint16(biased(t, "wm1", 0, 65534, 0, 1, 255, 256, 1919, 65533, 65534))
	h.HeightMinus1 = uint16(biased(t, "hm1", 0, 65534, 0, 1, 255, 256, 1079, 65533, 65534))

	return h
}

func genVP9PayCase(t *rapid.T) *VP9PayCase {
	c := &VP9PayCase{Flexible: genBool(t, "flexible"), OneReceiver: genBool(t, "onereceiver"), DefaultID: rapid.IntRange(0, 5).Draw(t, "defaultid") == 0}
	c.InitialID = uint16(biased(t, "initial", 0, 65535, 0, 1, 127, 128, 32766, 32767, 32768, 65535))
	nf := rapid.IntRange(1, 4).Draw(t, "nframes")
	minMTU := 4
	toggles := rapid.IntRange(0, 5).Draw(t, "toggles") == 0
	for i := 0; i < nf; i++ {
		f := VP9Frame{H: genVP9Hdr(t, 0), Seed: rapid.Uint64().Draw(t, "seed"), Toggle: toggles && genBool(t, "toggle")}
		if (!c.Flexible || toggles) && (!f.H.NonKey || f.H.ShowExistingFrame) {
			minMTU = 12
		}
		c.Frames = append(c.Frames, f)
	}
	c.MTU = uint16(biased(t, "mtu", minMTU, 65535, minMTU, minMTU+1, minMTU+2, minMTU+3, 12, 13, 14, 1200, 1188))
	for i := range c.Frames {
		room := int(c.MTU) - 3
		c.Frames[i].BodyLen = biased(t, "body", 0, 5000, append([]int{0, 1, 2}, around(2, room-11, room, 2*room-8, 2*room, 3*room)...)...)
		if room < 4 && c.Frames[i].BodyLen > 600 {
			c.Frames[i].BodyLen %= 600
		}
	}
	if rapid.IntRange(0, 5).Draw(t, "emptycalls") == 0 {
		c.Frames[rapid.IntRange(0, len(c.Frames)-1).Draw(t, "emptyat")].EmptyBefore = rapid.IntRange(1, 2).Draw(t, "emptykind")
	}
	if rapid.IntRange(0, 4).Draw(t, "varymtu") == 0 {
		for i := range c.Frames {
			if genBool(t, "ownmtu") {
				c.Frames[i].MTU = uint16(biased(t, "framemtu", minMTU, 65535, minMTU, minMTU+1, 100, 1200))
			}
		}
	}
	if rapid.IntRange(0, 299).Draw(t, "manypackets") == 173 { // a mid-range value: rapid favours the ends of a range
		// a frame that needs more packets than there are sequence numbers: the smallest MTUs and 64 KiB or more
		c.MTU = uint16(minMTU)
		c.Frames = c.Frames[:1]
		c.Frames[0].BodyLen = rapid.SampledFrom([]int{65530, 65536, 65540, 70000}).Draw(t, "manypacketsbody") * (minMTU - 3)

		return c
	}
	if rapid.IntRange(0, 59).Draw(t, "jumbo") == 0 {
		// a frame of 64 KiB or more (ordinary for HD key frames)
		if c.MTU < 1000 {
			c.MTU = uint16(rapid.SampledFrom([]int{1200, 1500, 9000, 65535}).Draw(t, "jumbomtu"))
		}
		c.Frames[rapid.IntRange(0, len(c.Frames)-1).Draw(t, "jumboframe")].BodyLen = rapid.SampledFrom([]int{65520, 65525, 65530, 65533, 65534, 65535, 65536, 65540, 66536, 131072, 200000}).Draw(t, "jumbobody")
	}

	return c
}

func genVP9DescCase(t *rapid.T) *VP9DescCase {
	c := genVP9DescCase1(t)
	c.Zero = rapid.IntRange(0, 7).Draw(t, "zero") == 0
	if rapid.IntRange(0, 1).Draw(t, "withpre") == 1 {
		for i, k := 0, rapid.IntRange(1, 2).Draw(t, "npre"); i < k; i++ {
			c.Pre = append(c.Pre, genVP9DescCase1(t).D)
		}
	}

	return c
}

func genVP9DescCase1(t *rapid.T) *VP9DescCase {
	d := vp9desc.Desc{
		I: genBool(t, "I"), P: genBool(t, "P"), L: genBool(t, "L"), F: genBool(t, "F"), B: genBool(t, "B"), E: genBool(t, "E"),
		V: rapid.IntRange(0, 2).Draw(t, "V") == 0, Z: genBool(t, "Z"),
	}
	if d.F {
		d.I = true // the specification requires a picture id in flexible mode
	}
	if d.I {
		d.M = genBool(t, "M")
		if d.M {
			d.PictureID = uint16(biased(t, "pic", 0, 32767, 0, 1, 127, 128, 255, 256, 32766, 32767))
		} else {
			d.PictureID = uint16(biased(t, "pic", 0, 127, 0, 1, 126, 127))
		}
	}
	if d.L {
		d.TID = uint8(rapid.IntRange(0, 7).Draw(t, "tid"))
		d.U = genBool(t, "u")
		d.SID = uint8(rapid.IntRange(0, 4).Draw(t, "sid")) // pion/rtp supports at most 5 spatial layers by design
		d.D = genBool(t, "dflag")
		if !d.F {
			d.TL0PICIDX = rapid.Byte().Draw(t, "tl0")
		}
	}
	if d.F && d.P {
		k := rapid.IntRange(1, 3).Draw(t, "npdiff")
		for i := 0; i < k; i++ {
			d.PDiff = append(d.PDiff, uint8(biased(t, "pdiff", 0, 127, 0, 1, 126, 127)))
		}
	}
	if d.V {
		d.NS = uint8(rapid.IntRange(0, 7).Draw(t, "ns"))
		d.Y = genBool(t, "y")
		d.G = genBool(t, "g")
		d.SSRsv = uint8(rapid.SampledFrom([]int{0, 0, 0, 7, 1}).Draw(t, "ssrsv"))
		if d.Y {
			for i := 0; i <= int(d.NS); i++ {
				d.Width = append(d.Width, genU16(t, "w"))
				d.Height = append(d.Height, genU16(t, "h"))
			}
		}
		if d.G {
			ng := biased(t, "ng", 0, 255, 0, 1, 2, 3, 8, 255)
			for i := 0; i < ng; i++ {
				g := vp9desc.PG{TID: uint8(rapid.IntRange(0, 7).Draw(t, "gtid")), U: genBool(t, "gu"), Rsv: uint8(rapid.SampledFrom([]int{0, 0, 3}).Draw(t, "grsv"))}
				rr := rapid.IntRange(0, 3).Draw(t, "r")
				g.PDiff = []uint8{}
				for k := 0; k < rr; k++ {
					g.PDiff = append(g.PDiff, rapid.Byte().Draw(t, "gpdiff"))
				}
				d.PGs = append(d.PGs, g)
			}
		}
	}
	c := &VP9DescCase{D: d, Cut: -1}
	c.Payload = genBytesN(t, "payload", rapid.IntRange(0, 40).Draw(t, "plen"))
	if rapid.IntRange(0, 99).Draw(t, "jumbopayload") == 61 {
		c.Jumbo = rapid.SampledFrom([]int{65490, 65530, 65536, 70000}).Draw(t, "jumbopayloadlen")
	}
	if rapid.IntRange(0, 2).Draw(t, "docut") == 0 {
		dl := len(vp9desc.Build(&d))
		c.Cut = rapid.IntRange(0, dl).Draw(t, "cut")
	}

	return c
}

const ruleC12 = "payloader: 1-4 frames whose uncompressed header prefix is written bit by bit by an independent writer (profiles 0-3 with reserved bit, show_existing_frame, key/non-key, all colour spaces incl. RGB, subsampling bits, size-1 in [0,65534]^2, garbage in reserved and trailing bits) followed by 0-5000 random bytes (one case in 60: a frame of 65520-200000 bytes; one in 300: a single frame that needs 65530-70000 packets at the smallest MTU), flexible and non-flexible mode (one case in six flips the public FlexibleMode field between frames), MTU >= 4 (>= 12 when a non-flexible key frame occurs) biased to the thresholds (one case in five changes the MTU between frames; one in six hands the payloader an empty or nil buffer between frames), initial picture id biased to 0,127,128,32766,32767,65535 or (one case in six) left to the library's default, then learned from the first packet; every packet is decoded by VP9Packet (a fresh one per packet, or one for the whole stream) and by an independent RFC 9628 descriptor parser: concatenation = frame, B/E placement, IsPartitionHead=B, F=mode, 15-bit id constant per frame and +1 per frame mod 2^15, <= MTU, non-flexible P=non-key and V/Y/width/height on the first packet of a key frame. descriptor: reference-built descriptors (I 7/15 bit, L, F with I, 1-3 P_DIFF, SS with N_S 0-7, Y, G, N_G 0-255 with R 0-3; SID 0-4 since pion supports 5 spatial layers by design) + payload (0-40 bytes, one case in a hundred followed by 64 KiB more), all truncations rejected; half of the cases decode 1-2 other descriptors into the same VP9Packet first; one case in eight runs in zero-allocation mode (only acceptance and the returned bytes are checked); after every decode - descriptor sub-check and each packet of the payloader sub-check - every field the descriptor does not carry must be zero or empty (PictureID without I, layer indices without L, TL0PICIDX in flexible mode, PDiff without F and P, SS fields without V, sizes without Y, picture groups without G). header: vp9.Header.Unmarshal equals the writer's fields and rejects every short byte prefix. Non-trivial = >=2 packets, non-flexible key frame with profile>=1 or RGB, SS with picture groups, >=2 P_DIFF, truncation, key-frame header; distinct = FNV-64 of the JSON case"

func TestC12(t *testing.T) {
	r := begin(t, "C12", "exploration", ruleC12)
	defer r.finish()
	subC12Pay.rapidRun(r, n(8000, 250000), genVP9PayCase)
	subC12Desc.rapidRun(r, n(15000, 250000), genVP9DescCase)
	subC12Hdr.rapidRun(r, n(10000, 150000), func(t *rapid.T) *VP9HdrCase {
		return &VP9HdrCase{H: genVP9Hdr(t, 0), Extra: genBytesN(t, "extra", rapid.IntRange(0, 6).Draw(t, "extralen"))}
	})
}
