package harness

// C11 — VP8 packetization is lossless and its descriptor decodes per RFC 7741.

import (
	"bytes"
	"fmt"
	"testing"

	"github.com/pion/rtp/codecs"
	"pgregory.net/rapid"

	"verifharness/ref/vp8desc"
)

type VP8Frame struct {
	Len  int    `json:"len"` // 0 = an empty (or, with Nil, nil) buffer: no frame, no packets, no picture id consumed
	Seed uint64 `json:"seed"`
	Nil  bool   `json:"nil,omitempty"`
	// Toggle: the public EnablePictureID field is flipped before this call; the id stays the running frame counter
	Toggle bool   `json:"toggle,omitempty"`
	MTU    uint16 `json:"mtu,omitempty"` // 0 = the case's MTU
}

type VP8PayCase struct {
	PictureID   bool       `json:"picture_id"`
	FastForward int        `json:"fast_forward"` // 1-byte frames sent first to advance the running id
	MTU         uint16     `json:"mtu"`
	Frames      []VP8Frame `json:"frames"`
	OneReceiver bool       `json:"one_receiver,omitempty"` // the whole stream is decoded by one VP8Packet, not a fresh one per packet
}

type VP8DescCase struct {
	X, N, S, R1, R2 bool
	PID             uint8
	I, L, T, K      bool
	RSV             uint8
	M               bool
	PictureID       uint16
	TL0PICIDX       uint8
	TKByte          uint8
	Payload         HexBytes `json:"payload"`
	Cut             int      `json:"cut"` // >=0: decode only the first Cut bytes of descriptor+payload; -1: whole
	// Zero: the receiver runs in zero-allocation mode (documented as a reduced feature set): a well-formed packet
	// must still be accepted and the bytes after the descriptor returned; the fields are not compared
	Zero bool `json:"zero,omitempty"`
	// Jumbo: this many further payload bytes follow (packets of 64 KiB and more: an RTP packet over TCP or a jumbo datagram)
	Jumbo int `json:"jumbo,omitempty"`
}

var (
	subC11Pay  = register("C11", "payloader", checkC11Pay)
	subC11Desc = register("C11", "descriptor", checkC11Desc)
)

func vp8DescSize(id uint16, enabled bool) int {
	if !enabled {
		return 1
	}
	if id < 128 {
		return 3
	}

	return 4
}

func checkC11Pay(r *run, c *VP8PayCase) (CaseInfo, error) {
	var ci CaseInfo
	p := &codecs.VP8Payloader{EnablePictureID: c.PictureID}
	var stream codecs.VP8Packet
	for i := 0; i < c.FastForward; i++ {
		p.Payload(100, []byte{0x55})
	}
	id := uint16(c.FastForward % 32768)
	if c.PictureID {
		ci.class("picture-id")
	}
	enabled := c.PictureID
	for fi, f := range c.Frames {
		mtu := c.MTU
		if f.MTU != 0 {
			mtu = f.MTU // this frame is sent with another MTU than the previous ones
			ci.class("mtu-changes-between-frames")
		}
		if f.Toggle {
			enabled = !enabled
			p.EnablePictureID = enabled
			ci.class("picture-id-mode-toggled-mid-stream")
		}
		if f.Len == 0 {
			var empty []byte
			if !f.Nil {
				empty = []byte{}
			}
			if out := p.Payload(mtu, empty); len(out) != 0 {
				return ci, failf("frame %d: an empty buffer produced %d packets", fi, len(out))
			}
			ci.class("empty-call-interleaved")

			continue // no frame was sent: the running picture id must not move
		}
		frame := expand(f.Seed, 0, f.Len)
		orig := clone(frame)
		pkts := p.Payload(mtu, frame)
		if !bytes.Equal(frame, orig) {
			return ci, failf("frame %d: payloader modified its input", fi)
		}
		if len(pkts) == 0 {
			return ci, failf("frame %d (%d bytes, mtu %d, id %d): no packets", fi, f.Len, mtu, id)
		}
		var cat []byte
		var parts [][]byte // the payload slices as returned, read again once the whole frame is decoded
		for pi, pk := range pkts {
			what := fmt.Sprintf("frame %d (%d bytes, mtu %d, id %d) packet %d/%d %s", fi, f.Len, mtu, id, pi, len(pkts), hx(pk))
			if len(pk) > int(mtu) {
				return ci, failf("%s: %d bytes exceed the MTU", what, len(pk))
			}
			vp := &codecs.VP8Packet{}
			if c.OneReceiver {
				vp = &stream
				ci.class("stream-through-one-receiver")
			}
			payload, err := vp.Unmarshal(pk)
			if err != nil {
				return ci, failf("%s: VP8Packet rejects it: %v", what, err)
			}
			ref, err := vp8desc.Parse(pk)
			if err != nil {
				return ci, failf("%s: reference parser rejects it: %v", what, err)
			}
			if !bytes.Equal(payload, pk[ref.Len:]) {
				return ci, failf("%s: VP8Packet payload %s, reference says the descriptor is %d bytes", what, hx(payload), ref.Len)
			}
			if len(payload) == 0 {
				return ci, failf("%s: empty payload", what)
			}
			cat = append(cat, payload...)
			parts = append(parts, payload)
			first := pi == 0
			if ref.S != first || (vp.S == 1) != first || vp.IsPartitionHead(pk) != first || (&codecs.VP8PartitionHeadChecker{}).IsPartitionHead(pk) != first {
				return ci, failf("%s: S=%v IsPartitionHead=%v, want %v", what, ref.S, vp.IsPartitionHead(pk), first)
			}
			if ref.PID != 0 || vp.PID != 0 {
				return ci, failf("%s: partition index %d", what, ref.PID)
			}
			if enabled {
				switch {
				case id == 0 && !ref.X:
					if e := r.finding("F15-vp8-picture-id-0-omitted", "%s: picture ids are enabled but the frame with id 0 carries no picture id field", what); e != nil {
						return ci, e
					}
				case !ref.X || !ref.I:
					return ci, failf("%s: picture ids are enabled but the packet has none (X=%v I=%v)", what, ref.X, ref.I)
				case ref.PictureID != id || vp.PictureID != id:
					return ci, failf("%s: picture id %d (VP8Packet %d), want %d", what, ref.PictureID, vp.PictureID, id)
				case ref.M != (id >= 128):
					return ci, failf("%s: picture id %d sent in the %v-bit form", what, id, map[bool]int{false: 7, true: 15}[ref.M])
				}
			} else if ref.X || ref.I {
				return ci, failf("%s: picture ids are disabled but X=%v I=%v", what, ref.X, ref.I)
			}
			if ref.L || ref.T || ref.K || ref.N {
				return ci, failf("%s: unexpected optional fields L=%v T=%v K=%v N=%v", what, ref.L, ref.T, ref.K, ref.N)
			}
		}
		if !bytes.Equal(cat, orig) {
			return ci, failf("frame %d (%d bytes, mtu %d): payloads concatenate to %d bytes that differ from the frame", fi, f.Len, mtu, len(cat))
		}
		if joined := bytes.Join(parts, nil); !bytes.Equal(joined, orig) {
			return ci, failf("frame %d (%d bytes, mtu %d): the payload slices returned for its %d packets, read again after the last packet was decoded, no longer concatenate to the frame (a receiver collecting them gets %d wrong bytes)", fi, f.Len, mtu, len(parts), len(joined))
		}
		// the frame is sent, the caller recycles the packet buffers (capacity included): later frames must not depend on them
		for _, pk := range pkts {
			for k, full := 0, pk[:cap(pk)]; k < len(full); k++ {
				full[k] ^= 0xFF
			}
		}
		if len(pkts) >= 2 && enabled {
			ci.Nontrivial = true
		}
		if len(pkts) >= 2 {
			ci.class("multi-packet")
		}
		switch id {
		case 0, 127, 128, 32767:
			if enabled {
				ci.class(fmt.Sprintf("id=%d", id))
				ci.Nontrivial = true
			}
		}
		id = (id + 1) & 0x7FFF
	}

	return ci, nil
}

func (c *VP8DescCase) desc() *vp8desc.Desc {
	return &vp8desc.Desc{X: c.X, N: c.N, S: c.S, R1: c.R1, R2: c.R2, PID: c.PID, I: c.I, L: c.L, T: c.T, K: c.K, RSV: c.RSV,
		M: c.M, PictureID: c.PictureID, TL0PICIDX: c.TL0PICIDX, TKByte: c.TKByte}
}

func u8(b bool) uint8 {
	if b {
		return 1
	}

	return 0
}

func checkC11Desc(r *run, c *VP8DescCase) (CaseInfo, error) {
	var ci CaseInfo
	d := c.desc()
	db := vp8desc.Build(d)
	full := append(clone(db), c.Payload...)
	if c.Jumbo > 0 {
		full = append(full, expand(uint64(c.Jumbo), 0, c.Jumbo)...)
		ci.class("jumbo-payload")
	}
	in := full
	if c.Cut >= 0 && c.Cut < len(full) {
		in = full[:c.Cut]
	}
	nopt := 0
	if c.X {
		for _, b := range []bool{c.I, c.L, c.T || c.K} {
			if b {
				nopt++
			}
		}
	}
	ci.class(fmt.Sprintf("optional-fields:%d", nopt))
	ci.Nontrivial = nopt >= 2 || (len(in) < len(db))
	var vp codecs.VP8Packet
	// preload the receiver with other values: decoding must not depend on them
	vp.X, vp.I, vp.L, vp.T, vp.K, vp.PictureID, vp.TL0PICIDX, vp.TID, vp.Y, vp.KEYIDX = 1, 1, 1, 1, 1, 0x7ABC, 0xEE, 3, 1, 0x1F
	arg := clone(in)
	if len(in) == 0 {
		arg = []byte{}
	}
	if c.Zero {
		vp.SetZeroAllocation(true)
		ci.class("zero-allocation-mode")
	}
	payload, err := vp.Unmarshal(arg)
	if len(in) < len(db) {
		ci.class("truncated-descriptor")
		if err == nil && !c.Zero {
			return ci, failf("descriptor %s cut to %d bytes (%s) is accepted", hx(db), len(in), hx(in))
		}

		return ci, nil
	}
	if len(in) == len(db) {
		// a complete descriptor followed by no payload byte is not a descriptor cut short: it is decoded, and the
		// bytes that follow it - none - are returned
		ci.class("descriptor-only")
	}
	if err != nil {
		return ci, failf("well-formed descriptor %s + %d payload bytes rejected: %v", hx(db), len(in)-len(db), err)
	}
	if !bytes.Equal(payload, in[len(db):]) || !bytes.Equal(vp.Payload, in[len(db):]) {
		return ci, failf("descriptor %s: returned payload %s, want %s", hx(db), hx(payload), hx(in[len(db):]))
	}
	if c.Zero {
		return ci, nil
	}
	want, _ := vp8desc.Parse(in)
	got := fmt.Sprintf("X%d N%d S%d PID%d I%d L%d T%d K%d pic%d tl0%d tid%d y%d key%d", vp.X, vp.N, vp.S, vp.PID, vp.I, vp.L, vp.T, vp.K, vp.PictureID, vp.TL0PICIDX, vp.TID, vp.Y, vp.KEYIDX)
	exp := fmt.Sprintf("X%d N%d S%d PID%d I%d L%d T%d K%d pic%d tl0%d tid%d y%d key%d", u8(want.X), u8(want.N), u8(want.S), want.PID, u8(want.I), u8(want.L), u8(want.T), u8(want.K),
		want.PictureID, want.TL0PICIDX, want.TID, u8(want.Y), want.KEYIDX)
	if got != exp {
		return ci, failf("descriptor %s decoded as %s, want %s", hx(db), got, exp)
	}
	if vp.IsPartitionHead(in) != c.S {
		return ci, failf("descriptor %s: IsPartitionHead=%v, S=%v", hx(db), vp.IsPartitionHead(in), c.S)
	}

	return ci, nil
}

func genVP8PayCase(t *rapid.T) *VP8PayCase {
	c := &VP8PayCase{PictureID: genBool(t, "pid"), OneReceiver: genBool(t, "onereceiver")}
	if ffm := rapid.IntRange(0, 19).Draw(t, "ffbig"); ffm <= 1 {
		c.FastForward = rapid.SampledFrom([]int{32765, 32766, 32767, 32768, 32769}).Draw(t, "ff")
	} else if ffm == 2 {
		// any id: powers of two, byte boundaries of the 15-bit form, or uniform
		c.FastForward = rapid.OneOf(rapid.SampledFrom([]int{254, 255, 256, 257, 511, 512, 1023, 1024, 4095, 4096, 8191, 8192, 16383, 16384, 16385, 32511, 32512}),
			rapid.IntRange(130, 33100)).Draw(t, "ff")
	} else {
		c.FastForward = rapid.SampledFrom([]int{0, 0, 0, 1, 2, 125, 126, 127, 128, 129, 5}).Draw(t, "ff")
	}
	nf := rapid.IntRange(1, 4).Draw(t, "nframes")
	toggles := rapid.IntRange(0, 5).Draw(t, "toggles") == 0
	maxDesc := 1
	for i := 0; i < nf; i++ {
		if s := vp8DescSize(uint16((c.FastForward+i)%32768), c.PictureID || toggles); s > maxDesc {
			maxDesc = s
		}
	}
	c.MTU = uint16(biased(t, "mtu", maxDesc+1, 65535, maxDesc+1, maxDesc+2, maxDesc+3, 1200, 1188))
	for i := 0; i < nf; i++ {
		payloadMax := int(c.MTU) - maxDesc
		l := biased(t, "len", 1, 3000, append([]int{1, 2}, around(1, payloadMax, 2*payloadMax, 3*payloadMax)...)...)
		if int(c.MTU)-maxDesc < 4 && l > 400 {
			l = l%400 + 1
		}
		c.Frames = append(c.Frames, VP8Frame{Len: l, Seed: rapid.Uint64().Draw(t, "seed"), Toggle: toggles && genBool(t, "toggle")})
	}
	if rapid.IntRange(0, 4).Draw(t, "varymtu") == 0 {
		for i := range c.Frames {
			if genBool(t, "ownmtu") {
				c.Frames[i].MTU = uint16(biased(t, "framemtu", maxDesc+1, 65535, maxDesc+1, maxDesc+2, 100, 1200))
			}
		}
	}
	if rapid.IntRange(0, 5).Draw(t, "emptycalls") == 0 {
		at := rapid.IntRange(0, len(c.Frames)).Draw(t, "emptyat")
		c.Frames = append(c.Frames[:at:at], append([]VP8Frame{{Len: 0, Nil: genBool(t, "emptynil")}}, c.Frames[at:]...)...)
	}
	if rapid.IntRange(0, 59).Draw(t, "jumbo") == 0 {
		if c.MTU < 1000 {
			c.MTU = uint16(rapid.SampledFrom([]int{1200, 9000, 65535}).Draw(t, "jumbomtu"))
		}
		if jf := &c.Frames[rapid.IntRange(0, len(c.Frames)-1).Draw(t, "jumboframe")]; jf.Len > 0 {
			jf.Len = rapid.SampledFrom([]int{65530, 65532, 65534, 65535, 65536, 65537, 65540, 70000, 131072, 200000}).Draw(t, "jumbolen")
		}
	}

	return c
}

func genVP8DescCase(t *rapid.T) *VP8DescCase {
	c := &VP8DescCase{
		Zero: rapid.IntRange(0, 7).Draw(t, "zero") == 0,
		X:    rapid.IntRange(0, 3).Draw(t, "x") != 0, N: genBool(t, "n"), S: genBool(t, "s"), R1: genBool(t, "r1"), R2: genBool(t, "r2"),
		PID: uint8(rapid.IntRange(0, 7).Draw(t, "pidx")),
		I:   genBool(t, "i"), L: genBool(t, "l"), T: genBool(t, "t"), K: genBool(t, "k"),
		RSV: uint8(rapid.IntRange(0, 15).Draw(t, "rsv")), M: genBool(t, "m"),
		TL0PICIDX: rapid.Byte().Draw(t, "tl0"), TKByte: rapid.Byte().Draw(t, "tk"),
	}
	if c.M {
		c.PictureID = uint16(biased(t, "pic", 0, 32767, 0, 1, 127, 128, 255, 256, 32766, 32767))
	} else {
		c.PictureID = uint16(biased(t, "pic", 0, 127, 0, 1, 126, 127))
	}
	c.Payload = genBytesN(t, "payload", rapid.IntRange(0, 40).Draw(t, "plen"))
	if rapid.IntRange(0, 99).Draw(t, "jumbopayload") == 61 {
		c.Jumbo = rapid.SampledFrom([]int{65490, 65530, 65536, 70000}).Draw(t, "jumbopayloadlen")
	}
	c.Cut = -1
	if rapid.IntRange(0, 2).Draw(t, "docut") == 0 {
		c.Cut = rapid.IntRange(0, 7).Draw(t, "cut")
	}

	return c
}

const ruleC11 = "payloader: picture ids on/off (one case in six flips the public EnablePictureID field between calls: the id stays the running frame counter), running id advanced to {0,1,2,5,125-129,32765-32769} by fast-forwarding 1-byte frames, 1-4 frames of 1-3000 bytes (one case in 60: a frame of 65530-200000 bytes) biased to k*(MTU-descriptor)+-1, MTU > descriptor size biased to +1..+3 (one case in five changes the MTU between frames); every packet is decoded by VP8Packet (a fresh one per packet, or one for the whole stream) and by an independent RFC 7741 parser: payload concatenation = frame, S/IsPartitionHead first only, PID 0, <= MTU, id present in every packet (7-bit form < 128, 15-bit from 128), +1 per frame mod 2^15. descriptor: all X/I/L/T/K/M combinations with arbitrary field values and reserved bits from the reference builder, payload 0-40 bytes (one case in a hundred followed by 64 KiB more), truncations at every prefix 0-7; VP8Packet (receiver preloaded with other values) must read exactly the reference parse (also when no payload byte follows the descriptor) and reject cut descriptors (one case in eight runs in zero-allocation mode, where only acceptance and the returned bytes are checked); thorough adds all 2^16 first-two-octet combinations. Non-trivial = frame split into >=2 packets with ids on, id in {0,127,128,32767}, descriptor with >=2 optional fields or a truncation; distinct = FNV-64 of the JSON case"

func TestC11(t *testing.T) {
	r := begin(t, "C11", "exploration", ruleC11)
	defer r.finish()
	subC11Pay.rapidRun(r, n(8000, 150000), genVP8PayCase)
	subC11Desc.rapidRun(r, n(25000, 300000), genVP8DescCase)
	if thorough() {
		// every combination of the first two octets, with fixed following field values
		var total int64
		ok := true
		for v := 0; v < 1<<16 && ok; v++ {
			if !mine(v) {
				continue
			}
			b0, b1 := byte(v>>8), byte(v)
			c := &VP8DescCase{X: b0&0x80 != 0, R1: b0&0x40 != 0, N: b0&0x20 != 0, S: b0&0x10 != 0, R2: b0&8 != 0, PID: b0 & 7,
				I: b1&0x80 != 0, L: b1&0x40 != 0, T: b1&0x20 != 0, K: b1&0x10 != 0, RSV: b1 & 15, M: v%3 == 0,
				PictureID: uint16(v) & 0x7F, TL0PICIDX: byte(v >> 3), TKByte: byte(v >> 5), Payload: []byte{1, 2, 3}, Cut: -1}
			if c.M {
				c.PictureID = uint16(v) & 0x7FFF
			}
			if _, err := subC11Desc.exec(r, c); err != nil {
				subC11Desc.one(r, c)
				ok = false
			}
			total++
		}
		if ok {
			r.col.Bulk("first-two-octets", total, total, map[string]int64{"enum:first-two-octets": total})
			r.col.Exhaustive("C11 all 2^16 values of the first two descriptor octets", envShards == 1)
		}
	}
}
