package harness

// C19 — Video Layers Allocation extension encodes per spec and round-trips.

import (
	"bytes"
	"fmt"
	"testing"

	"github.com/pion/rtp"
	"github.com/pion/rtp/codecs/av1/obu"
	"pgregory.net/rapid"

	"verifharness/ref/vla"
)

type VLALayer struct {
	Stream   int      `json:"stream"`
	Spatial  int      `json:"spatial"`
	Bitrates []uint64 `json:"bitrates"`
	Width    int      `json:"width"`
	Height   int      `json:"height"`
	FPS      int      `json:"fps"`
}

type VLACase struct {
	RID     int        `json:"rid"`
	Streams int        `json:"streams"`
	Layers  []VLALayer `json:"layers"`
	HasRes  bool       `json:"has_res"`
	Invalid string     `json:"invalid,omitempty"` // which single defect was injected ("" = valid)
	Prev    *VLACase   `json:"prev,omitempty"`    // decode this one first into the same receiver
}

type VLARawCase struct {
	Raw  HexBytes `json:"raw"`
	Prev HexBytes `json:"prev"`
}

var (
	subC19    = register("C19", "vla", checkC19)
	subC19Raw = register("C19", "hostile", checkC19Raw)
)

func (c *VLACase) lib() rtp.VLA {
	v := rtp.VLA{RTPStreamID: c.RID, RTPStreamCount: c.Streams, HasResolutionAndFramerate: c.HasRes}
	for _, l := range c.Layers {
		sl := rtp.SpatialLayer{RTPStreamID: l.Stream, SpatialID: l.Spatial}
		for _, b := range l.Bitrates {
			sl.TargetBitrates = append(sl.TargetBitrates, int(b))
		}
		if c.HasRes {
			sl.Width, sl.Height, sl.Framerate = l.Width, l.Height, l.FPS
		}
		v.ActiveSpatialLayer = append(v.ActiveSpatialLayer, sl)
	}

	return v
}

func (c *VLACase) ref() *vla.Alloc {
	a := &vla.Alloc{RID: c.RID, Streams: c.Streams, HasRes: c.HasRes}
	for _, l := range c.Layers {
		a.Layers = append(a.Layers, vla.Layer{Stream: l.Stream, Spatial: l.Spatial, Bitrates: l.Bitrates, Width: l.Width, Height: l.Height, FPS: l.FPS})
	}

	return a
}

func vlaObs(v *rtp.VLA) string {
	s := fmt.Sprintf("rid%d n%d res%v", v.RTPStreamID, v.RTPStreamCount, v.HasResolutionAndFramerate)
	for _, l := range v.ActiveSpatialLayer {
		s += fmt.Sprintf(" [%d/%d %v", l.RTPStreamID, l.SpatialID, l.TargetBitrates)
		if v.HasResolutionAndFramerate {
			s += fmt.Sprintf(" %dx%d@%d", l.Width, l.Height, l.Framerate)
		}
		s += "]"
	}

	return s
}

// vlaFull renders every field, also the resolution fields of a VLA that carries none (a decode leaves them zero).
func vlaFull(v *rtp.VLA) string {
	s := vlaObs(v)
	for _, l := range v.ActiveSpatialLayer {
		s += fmt.Sprintf(" {%dx%d@%d}", l.Width, l.Height, l.Framerate)
	}

	return s
}

func checkC19(r *run, c *VLACase) (CaseInfo, error) {
	var ci CaseInfo
	v := c.lib()
	if c.Invalid != "" {
		ci.class("invalid:" + c.Invalid)
		ci.Nontrivial = true
		b, err := v.Marshal()
		if err == nil {
			return ci, failf("Marshal accepted an invalid VLA (%s): %s -> %s", c.Invalid, vlaObs(&v), hx(b))
		}

		return ci, nil
	}
	a := c.ref()
	want := vla.Encode(a)
	// trusted-base self check
	if back, err := vla.DecodeWide(want); err != nil || !bytes.Equal(vla.Encode(back), want) || len(back.Layers) != len(a.Layers) {
		return ci, failf("harness bug: reference VLA codec does not round-trip: %v", err)
	}
	masks := a.Masks()
	distinctMasks, inactive := false, false
	for s := 0; s < c.Streams; s++ {
		if masks[s] != masks[0] {
			distinctMasks = true
		}
		if masks[s] == 0 {
			inactive = true
		}
	}
	bigRate := false
	for _, l := range c.Layers {
		for _, b := range l.Bitrates {
			if b >= 128 {
				bigRate = true
			}
		}
	}
	ci.class(fmt.Sprintf("streams:%d", c.Streams))
	if distinctMasks {
		ci.class("per-stream-masks")
	}
	if inactive {
		ci.class("inactive-stream")
	}
	if len(c.Layers) > 4 {
		ci.class(">4-layers")
	}
	if c.HasRes {
		ci.class("resolution")
	}
	ci.Nontrivial = distinctMasks || inactive || len(c.Layers) > 4 || bigRate

	if !c.HasRes && c.RID%2 == 1 {
		// resolution fields left over in the value (decoded earlier with resolutions, flag cleared since): not encoded
		for i := range v.ActiveSpatialLayer {
			v.ActiveSpatialLayer[i].Width, v.ActiveSpatialLayer[i].Height, v.ActiveSpatialLayer[i].Framerate = 640+i, 360+i, 30
		}
		ci.class("stale-resolution-fields-with-flag-clear")
	}
	// bitrates travel as LEB128; bytes the LEB128 writer hands out are the caller's and may be rewritten by it
	for _, l := range v.ActiveSpatialLayer {
		for _, b := range l.TargetBitrates {
			if b >= 0 {
				for i, e := 0, obu.WriteToLeb128(uint(b)); i < cap(e); i++ {
					e[:cap(e)][i] ^= 0xFF
				}
			}
		}
	}
	before := vlaObs(&v)
	got, err := v.Marshal()
	if err != nil {
		return ci, failf("Marshal rejected a valid VLA %s: %v", before, err)
	}
	if vlaObs(&v) != before {
		return ci, failf("Marshal modified the VLA")
	}
	if !bytes.Equal(got, want) {
		// narrow signatures of the two encoder root causes
		if distinctMasks && c.Streams <= 2 && len(got) == len(want)+1 && bytes.Equal(got[:len(want)], want) && got[len(want)] == 0 {
			// one surplus zero byte at the end: two mask bytes were reserved where the spec has one
			if e := r.finding("F23-vla-surplus-byte", "2 streams with differing masks: Marshal emits a surplus trailing byte (reserves two mask bytes where the spec has one): %s, spec layout %s", hx(got), hx(want)); e != nil {
				return ci, e
			}

			return ci, nil
		}
		if inactive && distinctMasks && got[0]&0x0F != 0 && want[0]&0x0F == 0 {
			if e := r.finding("F24-vla-shared-mask-ignores-inactive-streams", "a stream without active layers is ignored when deciding whether all streams share one mask: Marshal emits shared mask %#x: %s, spec layout %s", got[0]&0x0F, hx(got), hx(want)); e != nil {
				return ci, e
			}

			return ci, nil
		}

		return ci, failf("Marshal(%s) = %s, the specification layout is %s", before, hx(got), hx(want))
	}
	// the caller owns the returned buffer: overwriting it (and its spare capacity) must not reach a later Marshal
	for i, full := 0, got[:cap(got)]; i < len(full); i++ {
		full[i] ^= 0xFF
	}
	if again, err := v.Marshal(); err != nil || !bytes.Equal(again, want) {
		return ci, failf("a second Marshal(%s), after the caller overwrote the first result, = (%s,%v), the specification layout is %s", before, hx(again), err, hx(want))
	}
	var fresh rtp.VLA
	n, err := fresh.Unmarshal(clone(want))
	if err != nil || n != len(want) {
		return ci, failf("Unmarshal(%s) = (%d,%v), want (%d,nil)", hx(want), n, err, len(want))
	}
	wide := false // a bitrate of 2^56 or more: a nine-byte LEB128 field
	for _, l := range c.Layers {
		for _, b := range l.Bitrates {
			wide = wide || b >= 1<<56
		}
	}
	if wide {
		ci.class("nine-byte-bitrate-field")
	}
	if obs := vlaObs(&fresh); obs != before {
		if wide {
			if e := r.finding("F26-vla-nine-byte-bitrate-read-back-wrong", "a bitrate of 2^56 or more is written as a nine-byte LEB128 field that Unmarshal reads back as another value: Unmarshal(Marshal(v)) = %s, want %s (bytes %s)", obs, before, hx(want)); e != nil {
				return ci, e
			}

			return ci, nil
		}

		return ci, failf("Unmarshal(Marshal(v)) = %s, want %s (bytes %s)", obs, before, hx(want))
	}
	if c.Prev != nil {
		ci.class("decode-into-used-receiver")
		var dec rtp.VLA
		pb := vla.Encode(c.Prev.ref())
		if _, err := dec.Unmarshal(pb); err != nil {
			return ci, failf("Unmarshal of the earlier valid encoding %s failed: %v", hx(pb), err)
		}
		n, err := dec.Unmarshal(clone(want))
		if obs := vlaObs(&dec); err != nil || n != len(want) || obs != before {
			if e := r.finding("F25-vla-unmarshal-accumulates-on-reuse", "Unmarshal(%s) into a VLA that decoded %s before = (%d,%v) %s; a fresh receiver gives (%d,nil) %s",
				hx(want), hx(pb), n, err, obs, len(want), before); e != nil {
				return ci, e
			}
		} else if used, fr := vlaFull(&dec), vlaFull(&fresh); used != fr {
			return ci, failf("Unmarshal(%s) into a VLA that decoded %s before yields %s, a fresh receiver %s: fields of the earlier decode survive", hx(want), hx(pb), used, fr)
		}
	}

	return ci, nil
}

func checkC19Raw(r *run, c *VLARawCase) (CaseInfo, error) {
	var ci CaseInfo
	var v rtp.VLA
	if c.Prev != nil {
		_, _ = v.Unmarshal(clone(c.Prev))
		ci.class("hostile-reuse")
	}
	in := clone(c.Raw)
	n, err := v.Unmarshal(in)
	if !bytes.Equal(in, c.Raw) {
		return ci, failf("Unmarshal modified its input")
	}
	if n < 0 || n > len(c.Raw) {
		return ci, failf("Unmarshal(%s) reports %d bytes consumed of %d (err %v)", hx(c.Raw), n, len(c.Raw), err)
	}
	if err == nil {
		ci.class("hostile-accepted")
		_ = v.String()
		// an accepted decode must agree with the reference decoder when that one accepts too
		// (only when the input is exactly the specification's encoding of what it decodes to)
		if a, rerr := vla.Decode(c.Raw); rerr == nil && c.Prev == nil && len(a.Layers) > 0 && bytes.Equal(vla.Encode(a), c.Raw) {
			ci.class("hostile-accepted-canonical")
			var lc VLACase
			lc.RID, lc.Streams, lc.HasRes = a.RID, a.Streams, a.HasRes
			for _, l := range a.Layers {
				lc.Layers = append(lc.Layers, VLALayer{Stream: l.Stream, Spatial: l.Spatial, Bitrates: l.Bitrates, Width: l.Width, Height: l.Height, FPS: l.FPS})
			}
			wantV := lc.lib()
			if vlaObs(&v) != vlaObs(&wantV) && len(a.Layers) > 0 {
				return ci, failf("Unmarshal(%s) = %s, reference decoder reads %s", hx(c.Raw), vlaObs(&v), vlaObs(&wantV))
			}
		}
		if c.Prev != nil {
			// what an accepted input decodes to must not depend on what the receiver decoded before
			var fresh rtp.VLA
			if fn, ferr := fresh.Unmarshal(clone(c.Raw)); ferr != nil || fn != n || vlaFull(&fresh) != vlaFull(&v) {
				return ci, failf("Unmarshal(%s) into a VLA that decoded %s before = (%d) %s; a fresh receiver gives (%d,%v) %s", hx(c.Raw), hx(c.Prev), n, vlaFull(&v), fn, ferr, vlaFull(&fresh))
			}
		}
	} else {
		ci.class("hostile-rejected")
	}
	ci.Nontrivial = true

	return ci, nil
}

// genVLADetails fills bitrates / resolution for a given slot assignment.
func genVLADetails(t *rapid.T, streams int, masks [4]uint8) *VLACase {
	c := &VLACase{Streams: streams, RID: rapid.IntRange(0, streams-1).Draw(t, "rid"), HasRes: genBool(t, "hasres")}
	for s := 0; s < streams; s++ {
		for sp := 0; sp < 4; sp++ {
			if masks[s]&(1<<uint(sp)) == 0 {
				continue
			}
			l := VLALayer{Stream: s, Spatial: sp}
			ntl := rapid.IntRange(1, 4).Draw(t, "ntl")
			for k := 0; k < ntl; k++ {
				var b uint64
				switch rapid.IntRange(0, 4).Draw(t, "ratemode") {
				case 0:
					b = rapid.SampledFrom([]uint64{0, 1, 127, 128, 129, 16383, 16384, 2097151, 2097152, 268435455, 268435456, 4294967295}).Draw(t, "rate")
				case 1:
					b = uint64(rapid.Uint32().Draw(t, "rate"))
					if rapid.IntRange(0, 7).Draw(t, "hugerate") == 0 {
						// beyond 32 bits: six- to nine-byte LEB128 fields (the field is an int: up to 2^63-1)
						b = rapid.SampledFrom([]uint64{1 << 32, 1<<35 - 1, 1 << 35, 1 << 42, 1<<49 - 1, 1 << 49, 1 << 55, 1<<56 - 1, 1 << 56, 1<<56 + 1, 1<<57 - 1, 1 << 62, 1<<63 - 1}).Draw(t, "hugeratev")
					}
				default:
					b = uint64(rapid.IntRange(0, 20000).Draw(t, "rate"))
				}
				l.Bitrates = append(l.Bitrates, b)
			}
			if c.HasRes {
				l.Width = biased(t, "w", 1, 65536, 1, 2, 256, 257, 1920, 65535, 65536)
				l.Height = biased(t, "h", 1, 65536, 1, 2, 256, 257, 1080, 65535, 65536)
				l.FPS = biased(t, "fps", 0, 255, 0, 1, 30, 60, 255)
			}
			c.Layers = append(c.Layers, l)
		}
	}

	return c
}

func genMasks(t *rapid.T, streams int) [4]uint8 {
	var m [4]uint8
	for {
		mode := rapid.IntRange(0, 3).Draw(t, "maskmode")
		for s := 0; s < streams; s++ {
			switch mode {
			case 0: // all equal
				if s == 0 {
					m[0] = uint8(rapid.IntRange(1, 15).Draw(t, "mask"))
				} else {
					m[s] = m[0]
				}
			case 1: // some inactive
				m[s] = uint8(rapid.SampledFrom([]int{0, 0, 1, 3, 7, 15, 5}).Draw(t, "mask"))
			default:
				m[s] = uint8(rapid.IntRange(0, 15).Draw(t, "mask"))
			}
		}
		for s := 0; s < streams; s++ {
			if m[s] != 0 {
				return m
			}
		}
	}
}

func genVLACase(t *rapid.T) *VLACase {
	streams := rapid.IntRange(1, 4).Draw(t, "streams")
	c := genVLADetails(t, streams, genMasks(t, streams))
	if rapid.IntRange(0, 19).Draw(t, "maximal") == 0 {
		// the largest allocations the format can express: 3-4 streams with (nearly) all spatial layers, four
		// temporal layers each, five-byte bitrates, resolution records - encodings of 256-407 bytes
		streams = rapid.IntRange(3, 4).Draw(t, "maxstreams")
		var masks [4]uint8
		for i := 0; i < streams; i++ {
			masks[i] = rapid.SampledFrom([]uint8{0xF, 0xF, 0xF, 0x7, 0xE}).Draw(t, "maxmask")
		}
		c = genVLADetails(t, streams, masks)
		c.HasRes = true
		for i := range c.Layers {
			for len(c.Layers[i].Bitrates) < 4 {
				c.Layers[i].Bitrates = append(c.Layers[i].Bitrates, 0)
			}
			for k := range c.Layers[i].Bitrates {
				c.Layers[i].Bitrates[k] = uint64(rapid.Uint32Range(1<<28, 1<<32-1).Draw(t, "maxrate"))
			}
			if c.Layers[i].Width == 0 {
				c.Layers[i].Width, c.Layers[i].Height, c.Layers[i].FPS = 1920, 1080, 30
			}
		}
	}
	if rapid.IntRange(0, 2).Draw(t, "withprev") == 0 {
		ps := rapid.IntRange(1, 4).Draw(t, "pstreams")
		c.Prev = genVLADetails(t, ps, genMasks(t, ps))
	}
	if rapid.IntRange(0, 7).Draw(t, "invalid") == 0 {
		c.Prev = nil
		c.Invalid = rapid.SampledFrom([]string{"count0", "count-1", "count5", "rid-neg", "rid-high", "layer-stream-high", "layer-stream-neg", "spatial4", "spatial-neg", "duplicate", "tl0", "tl5",
			"count-wide", "rid-wide", "layer-stream-wide", "spatial-wide", "tl-wide"}).Draw(t, "defect")
		// wide out-of-range values, in particular ones congruent to valid values modulo 2^8 / 2^16 / 2^32
		wide := func(valid int) int {
			m := rapid.SampledFrom([]int{256, 65536, 1 << 32, -256, -65536}).Draw(t, "widemod")
			k := rapid.IntRange(1, 3).Draw(t, "widek")
			if rapid.IntRange(0, 3).Draw(t, "widerandom") == 0 {
				return rapid.IntRange(5, 1<<20).Draw(t, "widerand")
			}

			return valid + m*k
		}
		i := rapid.IntRange(0, len(c.Layers)-1).Draw(t, "defectlayer")
		switch c.Invalid {
		case "count0":
			c.Streams = 0
		case "count-1":
			c.Streams = -1
		case "count5":
			c.Streams = 5
		case "rid-neg":
			c.RID = -1
		case "rid-high":
			c.RID = c.Streams
		case "layer-stream-high":
			c.Layers[i].Stream = c.Streams
		case "layer-stream-neg":
			c.Layers[i].Stream = -1
		case "spatial4":
			c.Layers[i].Spatial = 4
		case "spatial-neg":
			c.Layers[i].Spatial = -1
		case "duplicate":
			c.Layers = append(c.Layers, c.Layers[i])
		case "tl0":
			c.Layers[i].Bitrates = nil
		case "tl5":
			c.Layers[i].Bitrates = []uint64{1, 2, 3, 4, 5}
		case "count-wide":
			c.Streams = wide(c.Streams)
		case "rid-wide":
			c.RID = wide(c.RID)
		case "layer-stream-wide":
			c.Layers[i].Stream = wide(c.Layers[i].Stream)
		case "spatial-wide":
			c.Layers[i].Spatial = wide(c.Layers[i].Spatial)
		case "tl-wide":
			c.Layers[i].Bitrates = make([]uint64, len(c.Layers[i].Bitrates)+256*rapid.IntRange(1, 2).Draw(t, "tlwide"))
		}
	}

	return c
}

func genVLARawCase(t *rapid.T) *VLARawCase {
	c := &VLARawCase{}
	mk := func(label string) []byte {
		switch rapid.IntRange(0, 3).Draw(t, label+".kind") {
		case 0:
			return rapid.SliceOfN(rapid.Byte(), 0, 40).Draw(t, label+".rand")
		default:
			streams := rapid.IntRange(1, 4).Draw(t, label+".streams")
			v := genVLADetails(t, streams, genMasks(t, streams))
			b := vla.Encode(v.ref())
			if genBool(t, label+".mutate") {
				b = applyMuts(b, genMuts(t, 3, len(b)))
			}

			return b
		}
	}
	c.Raw = mk("raw")
	if c.Raw == nil {
		c.Raw = []byte{}
	}
	if genBool(t, "hasprev") {
		c.Prev = mk("prev")
		if c.Prev == nil {
			c.Prev = []byte{}
		}
	}

	return c
}

// enumVLAMasks enumerates every assignment of the 16 stream x spatial slots for
// every stream count (all 16^n - 1 with at least one active slot), with fixed details.
func enumVLAMasks(r *run) bool {
	var total, nontriv int64
	classes := map[string]int64{}
	idx := 0
	for streams := 1; streams <= 4; streams++ {
		lim := 1 << (4 * uint(streams))
		for v := 1; v < lim; v++ {
			idx++
			if !mine(idx) {
				continue
			}
			var m [4]uint8
			for s := 0; s < streams; s++ {
				m[s] = uint8(v >> (4 * uint(s)) & 15)
			}
			c := &VLACase{Streams: streams, RID: v % streams, HasRes: v%3 == 0}
			for s := 0; s < streams; s++ {
				for sp := 0; sp < 4; sp++ {
					if m[s]&(1<<uint(sp)) == 0 {
						continue
					}
					l := VLALayer{Stream: s, Spatial: sp, Width: 320 << uint(sp), Height: 180 << uint(sp), FPS: 30}
					for k := 0; k <= (s+sp+v)%4; k++ {
						l.Bitrates = append(l.Bitrates, uint64(100*(k+1)<<uint(sp)))
					}
					c.Layers = append(c.Layers, l)
				}
			}
			info, err := subC19.exec(r, c)
			total++
			if info.Nontrivial {
				nontriv++
			}
			for _, k := range info.Classes {
				classes["enum:"+k]++
			}
			if err != nil {
				subC19.one(r, c)

				return false
			}
		}
	}
	r.col.Bulk("mask-enumeration", total, nontriv, classes)
	r.col.Exhaustive("C19 all 16^n-1 slot assignments for n=1..4 streams (69904 allocations) with fixed details", envShards == 1)
	r.col.AddSample("mask-enumeration", map[string]any{"streams": 3, "masks": []int{5, 0, 15}, "note": "one of the enumerated slot assignments"})

	return true
}

const ruleC19 = "valid VLAs: rapid draws 1-4 streams, RID, a slot assignment (equal masks / inactive streams / arbitrary), 1-4 temporal layers with bitrates across all LEB128 size classes (up to 2^32-1, occasionally up to 2^63-1: nine bytes), optional resolution (1-65536)^2 and frame rate (without the flag the fields are zero or hold left-over values, which must not be encoded), one case in 20 a maximal allocation (3-4 streams, nearly all 16 slots, four temporal layers with five-byte bitrates, resolutions: encodings of 256-407 bytes); every 16^n-1 slot assignment (69904 allocations) is also enumerated in both tiers, partitioned across the shards. Oracle (the caller first overwrites what the LEB128 writer returns for each bitrate): Marshal equals an independent encoder of the video-layers-allocation00 layout byte for byte, a second Marshal after the caller overwrote the first result gives the same bytes, Unmarshal consumes everything and yields an equal VLA, also into a receiver that decoded another allocation before (compared with a fresh receiver on every field, resolution fields included); VLAs with exactly one injected defect (boundary values, and wide out-of-range values incl. ones congruent to valid values modulo 2^8/2^16/2^32) must be rejected without panicking; hostile byte strings (random, mutated valid encodings, with earlier decode) must not panic and must report 0<=n<=len, and accepted ones must agree with the reference decoder and decode the same into a used and a fresh receiver. Non-trivial = differing masks, an inactive stream, >4 layers or a bitrate >=128 (valid), every invalid/hostile case; distinct = FNV-64 of the JSON case"

func TestC19(t *testing.T) {
	r := begin(t, "C19", "exploration", ruleC19)
	defer r.finish()
	if !enumVLAMasks(r) {
		return
	}
	subC19.rapidRun(r, n(20000, 300000), genVLACase)
	subC19Raw.rapidRun(r, n(30000, 400000), genVLARawCase)
}
