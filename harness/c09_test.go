package harness

// C09 — Depacketizers are panic-free, reuse-safe and own the state they retain.

import (
	"bytes"
	"fmt"
	"testing"

	"github.com/pion/rtp/codecs"
	"github.com/pion/rtp/codecs/av1/frame"
	pkgframe "github.com/pion/rtp/pkg/frame"
	"pgregory.net/rapid"

	"verifharness/ref/av1rtp"
	"verifharness/ref/h265rtp"
	"verifharness/ref/vp8desc"
	"verifharness/ref/vp9desc"
)

type DepStep struct {
	Op     string   `json:"op"` // unmarshal | head | tail
	Nil    bool     `json:"nil"`
	Data   HexBytes `json:"data"`
	Marker bool     `json:"marker"`
}

type DepCase struct {
	Receiver string    `json:"receiver"`
	Steps    []DepStep `json:"steps"`
}

var subC09 = register("C09", "depacketizers", checkC09)

var c09Receivers = []string{"h264", "h264avc", "h264zero", "h265", "h265donl", "vp8", "vp9", "av1", "av1packet", "av1packet-alias", "opus", "headcheckers",
	"h265zero", "vp8zero", "vp9zero", "av1zero"}

// The "...zero" receivers run in zero-allocation mode (SetZeroAllocation(true), documented as a reduced feature
// set): no panic, and the bytes returned / error-ness equal a fresh receiver's; metadata is not compared.
func baseRecv(name string) string {
	switch name {
	case "h265zero", "vp8zero", "vp9zero", "av1zero":
		return name[:len(name)-4]
	}

	return name
}

// receiver abstracts one depacketizer instance for the generic relations.
type receiver struct {
	name      string
	unmarshal func([]byte) ([]byte, error)
	head      func([]byte) bool
	tail      func(bool, []byte) bool
	meta      func() string // metadata after a successful Unmarshal ("" = none)
}

func vp8Meta(p *codecs.VP8Packet) string {
	return fmt.Sprintf("X%d N%d S%d PID%d I%d L%d T%d K%d pic%d tl0%d tid%d y%d key%d payload=%x", p.X, p.N, p.S, p.PID, p.I, p.L, p.T, p.K, p.PictureID, p.TL0PICIDX, p.TID, p.Y, p.KEYIDX, p.Payload)
}

func vp9Meta(p *codecs.VP9Packet) string {
	return fmt.Sprintf("I%v P%v L%v F%v B%v E%v V%v Z%v pic%d tid%d u%v sid%d d%v pdiff%v tl0%d ns%d y%v g%v ng%d w%v h%v pgtid%v pgu%v pgpdiff%v payload=%x",
		p.I, p.P, p.L, p.F, p.B, p.E, p.V, p.Z, p.PictureID, p.TID, p.U, p.SID, p.D, p.PDiff, p.TL0PICIDX, p.NS, p.Y, p.G, p.NG, p.Width, p.Height, p.PGTID, p.PGU, p.PGPDiff, p.Payload)
}

func newReceiver(name string) *receiver {
	if base := baseRecv(name); base != name {
		rc := newReceiverMode(base, true)
		rc.name, rc.meta = name, nil

		return rc
	}

	return newReceiverMode(name, false)
}

func newReceiverMode(name string, zero bool) *receiver {
	switch name {
	case "h264", "h264avc", "h264zero":
		p := &codecs.H264Packet{IsAVC: name == "h264avc"}
		if name == "h264zero" {
			p.SetZeroAllocation(true)
		}

		return &receiver{name: name, unmarshal: p.Unmarshal, head: p.IsPartitionHead, tail: p.IsPartitionTail}
	case "h265", "h265donl":
		p := &codecs.H265Packet{}
		p.WithDONL(name == "h265donl")
		p.SetZeroAllocation(zero)

		return &receiver{name: name, unmarshal: p.Unmarshal, head: p.IsPartitionHead, tail: p.IsPartitionTail, meta: func() string {
			return h265Meta(p)
		}}
	case "vp8":
		p := &codecs.VP8Packet{}
		p.SetZeroAllocation(zero)

		return &receiver{name: name, unmarshal: p.Unmarshal, head: p.IsPartitionHead, tail: p.IsPartitionTail, meta: func() string { return vp8Meta(p) }}
	case "vp9":
		p := &codecs.VP9Packet{}
		p.SetZeroAllocation(zero)

		return &receiver{name: name, unmarshal: p.Unmarshal, head: p.IsPartitionHead, tail: p.IsPartitionTail, meta: func() string { return vp9Meta(p) }}
	case "av1":
		p := &codecs.AV1Depacketizer{}
		p.SetZeroAllocation(zero)

		return &receiver{name: name, unmarshal: p.Unmarshal, head: p.IsPartitionHead, tail: p.IsPartitionTail, meta: func() string {
			return fmt.Sprintf("Z%v Y%v N%v", p.Z, p.Y, p.N)
		}}
	case "av1packet", "av1packet-alias":
		p := &codecs.AV1Packet{}
		var asm frame.AV1
		var asm2 pkgframe.AV1
		alias := name == "av1packet-alias"

		return &receiver{name: name, unmarshal: func(b []byte) ([]byte, error) {
			out, err := p.Unmarshal(b)
			if err == nil {
				if alias {
					_, _ = asm2.ReadFrames(p)
				} else {
					_, _ = asm.ReadFrames(p)
				}
			}

			return out, err
		}, head: func([]byte) bool { return false }, tail: func(bool, []byte) bool { return false }}
	case "opus":
		p := &codecs.OpusPacket{}

		return &receiver{name: name, unmarshal: p.Unmarshal, head: p.IsPartitionHead, tail: p.IsPartitionTail, meta: func() string { return fmt.Sprintf("payload=%x", p.Payload) }}
	default: // the deprecated stateless PartitionHeadChecker types
		h264, vp8, vp9, opus := &codecs.H264PartitionHeadChecker{}, &codecs.VP8PartitionHeadChecker{}, &codecs.VP9PartitionHeadChecker{}, &codecs.OpusPartitionHeadChecker{}

		return &receiver{name: name, unmarshal: func(b []byte) ([]byte, error) {
			h264.IsPartitionHead(b)
			vp8.IsPartitionHead(b)
			vp9.IsPartitionHead(b)
			opus.IsPartitionHead(b)

			return nil, nil
		}, head: func(b []byte) bool {
			return h264.IsPartitionHead(b) || vp8.IsPartitionHead(b) || vp9.IsPartitionHead(b)
		}, tail: func(bool, []byte) bool { return false }}
	}
}

func h265Meta(p *codecs.H265Packet) string {
	dp := func(v *uint16) string {
		if v == nil {
			return "-"
		}

		return fmt.Sprint(*v)
	}
	switch x := p.Packet().(type) {
	case *codecs.H265SingleNALUnitPacket:
		return fmt.Sprintf("single %#x donl%s %x", uint16(x.PayloadHeader()), dp(x.DONL()), x.Payload())
	case *codecs.H265AggregationPacket:
		s := fmt.Sprintf("ap donl%s %x", dp(x.FirstUnit().DONL()), x.FirstUnit().NalUnit())
		for _, u := range x.OtherUnits() {
			d := "-"
			if u.DOND() != nil {
				d = fmt.Sprint(*u.DOND())
			}
			s += fmt.Sprintf(" dond%s %x", d, u.NalUnit())
		}

		return s
	case *codecs.H265FragmentationUnitPacket:
		return fmt.Sprintf("fu %#x %#x donl%s %x", uint16(x.PayloadHeader()), uint8(x.FuHeader()), dp(x.DONL()), x.Payload())
	case *codecs.H265PACIPacket:
		s := fmt.Sprintf("paci %#x A%v c%d phs%d %v%v%v%v phes=%x payload=%x", uint16(x.PayloadHeader()), x.A(), x.CType(), x.PHSsize(), x.F0(), x.F1(), x.F2(), x.Y(), x.PHES(), x.Payload())
		if t := x.TSCI(); t != nil {
			s += fmt.Sprintf(" tsci%#x", uint32(*t))
		}

		return s
	}

	return "none"
}

func perPacketFormat(name string) bool {
	switch baseRecv(name) {
	case "vp8", "vp9", "h265", "h265donl", "opus":
		return true
	}

	return false
}

func carriesState(name string) bool {
	switch baseRecv(name) {
	case "h264", "h264avc", "av1":
		return true
	}

	return false
}

func (s *DepStep) arg() []byte {
	if s.Nil {
		return nil
	}
	if s.Data == nil {
		return []byte{}
	}

	return clone(s.Data)
}

func checkC09(r *run, c *DepCase) (CaseInfo, error) {
	var ci CaseInfo
	ci.class("receiver:" + c.Receiver)
	prim := newReceiver(c.Receiver)
	var twin *receiver
	if carriesState(c.Receiver) {
		twin = newReceiver(c.Receiver)
	}
	accepted := 0
	var earlier [][]byte // input buffers handed to prim so far (overwritten after use)
	for i := range c.Steps {
		st := &c.Steps[i]
		in := st.arg()
		what := lazy(func() string {
			return fmt.Sprintf("%s step %d/%d %s(%s)", c.Receiver, i, len(c.Steps), st.Op, hx(st.Data))
		})
		switch st.Op {
		case "head":
			prim.head(in)
			if twin != nil {
				twin.head(st.arg())
			}
		case "tail":
			prim.tail(st.Marker, in)
			if twin != nil {
				twin.tail(st.Marker, st.arg())
			}
		default:
			out, err := prim.unmarshal(in)
			outCopy := clone(out)
			if in != nil && !bytes.Equal(in, st.Data) {
				return ci, failf("%s: Unmarshal modified its input", what)
			}
			meta := ""
			if err == nil && prim.meta != nil {
				meta = prim.meta()
			}
			if err == nil {
				accepted++
			}
			if perPacketFormat(c.Receiver) {
				fresh := newReceiver(c.Receiver)
				fout, ferr := fresh.unmarshal(st.arg())
				if (err != nil) != (ferr != nil) || !bytes.Equal(outCopy, fout) {
					if e := r.finding(reuseKey(c.Receiver), "%s: a reused receiver returns (%s, err %v), a fresh one (%s, err %v)", what, hx(outCopy), err, hx(fout), ferr); e != nil {
						return ci, e
					}

					return ci, nil
				}
				if err == nil && fresh.meta != nil {
					if fm := fresh.meta(); fm != meta {
						if e := r.finding(reuseKey(c.Receiver), "%s: metadata of a reused receiver differs from a fresh one:\n reused: %s\n fresh:  %s", what, meta, fm); e != nil {
							return ci, e
						}

						return ci, nil
					}
				}
				if i > 0 && err == nil {
					ci.class("reuse-compared")
				}
			}
			if twin != nil {
				tout, terr := twin.unmarshal(st.arg())
				tmeta := ""
				if terr == nil && twin.meta != nil {
					tmeta = twin.meta()
				}
				if (err != nil) != (terr != nil) || !bytes.Equal(outCopy, tout) || meta != tmeta {
					key := "retained-input"
					if baseRecv(c.Receiver) == "av1" {
						key = "F13-av1-depacketizer-buffer-aliases-input"
					}
					if e := r.finding(key, "%s: result (%s, err %v, %s) differs from a twin fed pristine copies (%s, err %v, %s): state carried over from an earlier input buffer that has since been overwritten", what, hx(outCopy), err, meta, hx(tout), terr, tmeta); e != nil {
						return ci, e
					}

					return ci, nil
				}
				// overwrite the buffer just handed in (after the result was copied)
				for k := range in {
					in[k] ^= 0xFF
				}
				earlier = append(earlier, in)
				if len(earlier) >= 2 && err == nil && len(outCopy) > 0 {
					ci.class("output-after-earlier-buffers-overwritten")
				}
			}
		}
	}
	ci.Nontrivial = accepted >= 2

	return ci, nil
}

func reuseKey(recv string) string {
	if baseRecv(recv) == "vp9" {
		return "F12-vp9-packet-reuse-accumulates"
	}

	return "reuse-differs"
}

// ---- valid payload seeds per receiver

func genValidTrain(t *rapid.T, recv string) [][]byte {
	recv = baseRecv(recv)
	switch recv {
	case "h264", "h264avc", "h264zero":
		var call H264Call
		k := rapid.IntRange(1, 3).Draw(t, "vnals")
		mtu := rapid.IntRange(4, 40).Draw(t, "vmtu")
		for i := 0; i < k; i++ {
			n := NALSpec{Type: rapid.SampledFrom([]uint8{1, 5, 6, 7, 8}).Draw(t, "vtype"), NRI: 2, Seed: rapid.Uint64().Draw(t, "vseed"), StartCode: 4}
			n.Len = rapid.IntRange(2, 3*mtu).Draw(t, "vlen")
			call.Units = append(call.Units, n)
		}

		return (&codecs.H264Payloader{DisableStapA: genBool(t, "vnostap")}).Payload(uint16(mtu), call.buffer())
	case "h265", "h265donl":
		donl := recv == "h265donl"
		c := genH265DecCase(t)
		c.DONL = donl
		c.Cut = -1
		p, _ := c.build()

		return [][]byte{p}
	case "vp8":
		c := genVP8DescCase(t)

		return [][]byte{append(vp8desc.Build(c.desc()), c.Payload...)}
	case "vp9":
		c := genVP9DescCase(t)

		return [][]byte{append(vp9desc.Build(&c.D), c.Payload...)}
	case "av1", "av1packet", "av1packet-alias":
		c := genAV1Case(t)
		if rapid.IntRange(0, 19).Draw(t, "vav1big") == 0 {
			// large OBUs (16 KiB+, extension headers included) over a few large packets
			if c.MTU < 6000 {
				c.MTU = uint16(rapid.SampledFrom([]int{6000, 16500, 40000, 65535}).Draw(t, "vav1bigmtu"))
			}
			k := rapid.IntRange(0, len(c.OBUs)-1).Draw(t, "vav1bigwhich")
			c.OBUs[k].Size = rapid.SampledFrom([]int{16382, 16383, 16384, 16385, 17000, 65535, 65536, 70000}).Draw(t, "vav1bigsize")
			if c.OBUs[k].Type == 2 || c.OBUs[k].Type == 8 {
				c.OBUs[k].Type = 6
			}

			return (&codecs.AV1Payloader{}).Payload(c.MTU, c.input())
		}
		if c.MTU > 60 {
			c.MTU = uint16(rapid.IntRange(2, 60).Draw(t, "vav1mtu"))
		}
		for i := range c.OBUs {
			if c.OBUs[i].Size > 200 {
				c.OBUs[i].Size %= 200
			}
		}
		if rapid.IntRange(0, 2).Draw(t, "vav1refenc") == 0 {
			// packet shapes the library's payloader never produces: W=0 with every element length-prefixed,
			// up to three elements per packet, fragments cut anywhere
			var obus [][]byte
			total := 0
			for i := range c.OBUs {
				o := &c.OBUs[i]
				obus = append(obus, append(o.hdr(false).Bytes(), expand(o.Seed, 0, o.Size)...))
				total += 2 + o.Size
			}
			lo := maxi(1, total/24)
			var ws []int
			for i, k := 0, rapid.IntRange(1, 4).Draw(t, "vav1nw"); i < k; i++ {
				ws = append(ws, rapid.IntRange(0, 1).Draw(t, "vav1w"))
			}

			return av1rtp.Pack(obus, rapid.IntRange(lo, maxi(lo, 60)).Draw(t, "vav1room"), ws, genBool(t, "vav1n"))
		}

		return (&codecs.AV1Payloader{}).Payload(c.MTU, c.input())
	default:
		return [][]byte{rapid.SliceOfN(rapid.Byte(), 1, 20).Draw(t, "vrand")}
	}
}

// genLengthLie builds aggregation-style payloads whose length fields are off by a
// little: the classic way a missing or off-by-one bounds check turns into a panic.
func genLengthLie(t *rapid.T, recv string) []byte {
	delta := func() int { return rapid.SampledFrom([]int{0, 0, 1, 1, -1, 2, 3, 255, 65535}).Draw(t, "liedelta") }
	unit := func() []byte { return rapid.SliceOfN(rapid.Byte(), 0, 6).Draw(t, "lieunit") }
	be16 := func(v int) []byte { return []byte{byte(v >> 8), byte(v)} }
	k := rapid.IntRange(1, 4).Draw(t, "lieunits")
	var b []byte
	recv = baseRecv(recv)
	switch recv {
	case "h264", "h264avc", "h264zero", "headcheckers", "opus":
		b = []byte{0x18 | byte(rapid.IntRange(0, 3).Draw(t, "lienri"))<<5}
		for i := 0; i < k; i++ {
			u := unit()
			d := 0
			if i == k-1 {
				d = delta()
			}
			b = append(b, be16((len(u)+d)&0xFFFF)...)
			b = append(b, u...)
		}
	case "h265", "h265donl":
		b = []byte{48 << 1, 1}
		for i := 0; i < k; i++ {
			if recv == "h265donl" {
				if i == 0 {
					b = append(b, 0, 7)
				} else {
					b = append(b, 1)
				}
			}
			u := unit()
			d := 0
			if i == k-1 || rapid.IntRange(0, 5).Draw(t, "liemid") == 0 {
				d = delta()
			}
			b = append(b, be16((len(u)+d)&0xFFFF)...)
			b = append(b, u...)
		}
		if rapid.IntRange(0, 3).Draw(t, "liepaci") == 0 {
			// PACI: A(1) cType(6) PHSsize(5) F0 F1 F2 Y; cType biased to the wrapped FU / AP / PACI types, PHSsize to sizes
			// that reach past the end of a short packet
			p0 := rapid.OneOf(rapid.SampledFrom([]int{0x62, 0x63, 0xE2, 0xE3, 0x60, 0x61, 0x64, 0x02}), rapid.IntRange(0, 255)).Draw(t, "paci0")
			b = []byte{50 << 1, 1, byte(p0), byte(rapid.OneOf(rapid.SampledFrom([]int{0x00, 0x10, 0x30, 0x38, 0xF0, 0xF8, 0x80}), rapid.IntRange(0, 255)).Draw(t, "paci1"))}
			b = append(b, unit()...)
		}
	case "vp8", "vp9":
		b = []byte{byte(rapid.SampledFrom([]int{0x80, 0x90, 0xB0, 0xF0, 0xFF, 0x9A, 0xB2, 0xBA}).Draw(t, "lied0"))}
		b = append(b, rapid.SliceOfN(rapid.SampledFrom([]uint8{0x80, 0xFF, 0x81, 0x01, 0x00, 0xF8, 0x18, 0x0C, 0x7F}), 0, 10).Draw(t, "liedesc")...)
	default: // av1
		w := rapid.IntRange(0, 3).Draw(t, "liew")
		b = []byte{byte(rapid.SampledFrom([]int{0, 0x80, 0x40, 0xC0, 0x08}).Draw(t, "liezy")) | byte(w)<<4}
		for i := 0; i < k; i++ {
			u := unit()
			if len(u) > 0 && rapid.IntRange(0, 1).Draw(t, "liehdr") == 0 {
				u[0] = rapid.SampledFrom([]uint8{0x0A, 0x32, 0x30, 0x12, 0x16, 0x06, 0x04}).Draw(t, "lieobu")
			}
			d := 0
			if i == k-1 {
				d = delta()
			}
			if !(w != 0 && i == w-1) && rapid.IntRange(0, 5).Draw(t, "longleb") == 0 {
				// an over-long LEB128 (up to 11 continuation groups): reads as a huge or wrapped length
				nn := rapid.IntRange(1, 11).Draw(t, "longlebn")
				for q := 0; q < nn; q++ {
					b = append(b, rapid.SampledFrom([]uint8{0x80, 0xFF, 0x81, 0xC0}).Draw(t, "longlebb"))
				}
				b = append(b, rapid.SampledFrom([]uint8{0x00, 0x01, 0x7F, 0x02}).Draw(t, "longlebt"))
				b = append(b, u...)

				continue
			}
			if !(w != 0 && i == w-1) {
				v := len(u) + d
				if v < 0 {
					v = 0
				}
				if v < 128 {
					b = append(b, byte(v))
				} else {
					b = append(b, byte(v)|0x80, byte(v>>7))
				}
			}
			b = append(b, u...)
		}
	}

	return b
}

func genDepCase(t *rapid.T) *DepCase {
	c := &DepCase{Receiver: rapid.SampledFrom(c09Receivers).Draw(t, "receiver")}
	var pool [][]byte
	for len(c.Steps) < 8 {
		st := DepStep{Op: rapid.SampledFrom([]string{"unmarshal", "unmarshal", "unmarshal", "unmarshal", "head", "tail"}).Draw(t, "op"), Marker: genBool(t, "marker")}
		switch rapid.IntRange(0, 9).Draw(t, "datakind") {
		case 0:
			st.Nil = true
		case 1:
			st.Data = []byte{}
		case 2:
			st.Data = rapid.SliceOfN(rapid.Byte(), 1, 60).Draw(t, "rand")
		case 3:
			st.Data = genLengthLie(t, c.Receiver)
		default:
			if len(pool) == 0 || rapid.IntRange(0, 2).Draw(t, "newtrain") == 0 {
				pool = append(pool, genValidTrain(t, c.Receiver)...)
				if len(pool) > 40 {
					pool = pool[len(pool)-40:]
				}
			}
			if len(pool) == 0 {
				st.Data = []byte{0}
			} else {
				// walk the pool mostly in order so that fragment trains are fed as trains
				idx := 0
				if rapid.IntRange(0, 3).Draw(t, "jump") == 0 {
					idx = rapid.IntRange(0, len(pool)-1).Draw(t, "poolidx")
				}
				st.Data = clone(pool[idx])
				pool = append(pool[:idx:idx], pool[idx+1:]...)
				if rapid.IntRange(0, 3).Draw(t, "mutate") == 0 {
					st.Data = applyMuts(st.Data, genMuts(t, 2, 8))
				}
			}
			if st.Data == nil {
				st.Data = []byte{}
			}
		}
		c.Steps = append(c.Steps, st)
		if rapid.IntRange(0, 7).Draw(t, "stop") == 0 {
			break
		}
	}

	return c
}

// enumC09 feeds every byte string up to maxLen to every receiver, fresh and after
// a payload that leaves a fragment pending.
func enumC09(r *run, maxLen int) bool {
	pre := map[string][]byte{
		"h264": {0x7C, 0x85, 1, 2, 3}, "h264avc": {0x7C, 0x85, 1, 2, 3}, "av1": {0x50, 0x32, 9, 9, 9},
		"av1packet": {0x50, 0x32, 9, 9, 9}, "av1packet-alias": {0x50, 0x32, 9, 9, 9}, "vp9": {0x9A, 0x81, 0x02, 0x05, 0x07, 0x18, 0x00, 0x01, 0x00, 0x01, 0x01, 0x14, 0x01, 0x77},
	}
	var total int64
	idx := 0
	for _, recv := range c09Receivers {
		for l := 0; l <= maxLen; l++ {
			if l > 2 && baseRecv(recv) != recv {
				break // zero-allocation variants: strings up to 2 bytes in both tiers
			}
			cnt := 1 << (8 * uint(l))
			for v := 0; v < cnt; v++ {
				idx++
				if !mine(idx) {
					continue
				}
				data := make([]byte, l)
				for k := 0; k < l; k++ {
					data[k] = byte(v >> (8 * uint(k)))
				}
				c := &DepCase{Receiver: recv, Steps: []DepStep{{Op: "unmarshal", Data: data}, {Op: "head", Data: data}, {Op: "tail", Data: data, Marker: v&1 == 1}}}
				if p, ok := pre[recv]; ok && v&2 == 2 {
					c.Steps = append([]DepStep{{Op: "unmarshal", Data: p}}, c.Steps...)
				}
				if _, err := subC09.exec(r, c); err != nil {
					subC09.one(r, c)

					return false
				}
				total++
			}
		}
	}
	r.col.Bulk("short-strings", total, total, map[string]int64{"enum:short-strings": total})
	r.col.Exhaustive(fmt.Sprintf("C09 every byte string of length <= %d against every receiver (fresh / after a pending fragment alternating)", maxLen), envShards == 1)
	r.col.AddSample("short-strings", map[string]any{"receiver": "av1", "steps": []string{"unmarshal 5032090909", "unmarshal 80ff", "head 80ff", "tail 80ff"}})

	return true
}

const ruleC09 = "rapid draws a receiver (H264Packet Annex-B/AVC/zero-allocation, H265Packet +-DONL, VP8Packet, VP9Packet, AV1Depacketizer, AV1Packet + frame.AV1 directly or through pkg/frame, OpusPacket, H265/VP8/VP9/AV1 depacketizers in zero-allocation mode (bytes and error-ness only), the deprecated PartitionHeadChecker types) and 1-8 steps Unmarshal/IsPartitionHead/IsPartitionTail over payloads that are nil, empty, random (1-60 bytes), valid (library payloader output fed mostly in order, reference-built descriptors/payloads, AV1 trains of an independent encoder with W=0 and counted forms) or 1-2 byte mutations of valid ones, and aggregation-style payloads whose length fields lie (H265 PACI with cType biased to the wrapped FU/AP/PACI types and header-extension sizes past the end); plus every byte string of length <=2 (quick) / <=3 (thorough) against every receiver. Oracle: no panic, input unmodified; per-packet formats: result, error-ness and all metadata equal a fresh receiver's; H264Packet/AV1Depacketizer: each input buffer is overwritten after the call and every result (and AV1 Z/Y/N) must equal a twin's that got pristine copies. Non-trivial = >=2 accepted payloads on one receiver, every enumerated string; distinct = FNV-64 of the JSON case"

func TestC09(t *testing.T) {
	r := begin(t, "C09", "exploration", ruleC09)
	defer r.finish()
	maxLen := 2
	if thorough() {
		maxLen = 3
	}
	if !enumC09(r, maxLen) {
		return
	}
	subC09.rapidRun(r, n(30000, 400000), genDepCase)
	_ = h265rtp.TypeAP
}
