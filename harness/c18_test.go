package harness

// C18 — NTP time mapping and send-time estimation recover the original instant.

import (
	"math/bits"
	"testing"
	"time"

	"github.com/pion/rtp"
	"pgregory.net/rapid"

	"verifharness/ref/ntp"
)

// eraEndNs: the NTP era ends 2036-02-07T06:28:16Z (2^32 s after 1900).
const eraEndNs = int64(1<<32-ntp.EpochOffset) * 1_000_000_000

// maxDelayNs: delays in [0, 64 s - 2^-18 s): the largest integer-ns delay below the bound.
const maxDelayNs = int64(64_000_000_000 - 3815)

type TimeCase struct {
	T int64 `json:"t_ns"`      // instant, ns since 1970
	D int64 `json:"delay_ns"`  // network delay
	O int64 `json:"offset_ns"` // capture clock offset
	// Zone/RecvZone: the time.Time values passed in carry a fixed-offset Location this many seconds east of
	// UTC (0 = what time.Unix returns); the instant is the same, so every result must be the same
	Zone     int `json:"zone_s,omitempty"`
	RecvZone int `json:"recv_zone_s,omitempty"`
}

func inZone(t time.Time, z int) time.Time {
	if z == 0 {
		return t
	}

	return t.In(time.FixedZone("verif", z))
}

var subC18 = register("C18", "time", checkC18)

func abs64(v int64) int64 {
	if v < 0 {
		return -v
	}

	return v
}

func checkC18(r *run, c *TimeCase) (CaseInfo, error) {
	var ci CaseInfo
	t := inZone(time.Unix(0, c.T), c.Zone)
	if c.Zone != 0 || c.RecvZone != 0 {
		ci.class("non-UTC-location")
	}
	// 1. capture time round trip
	ext := rtp.NewAbsCaptureTimeExtension(t)
	if want := ntp.NTP64Floor(c.T); ext.Timestamp != want && ext.Timestamp != want+1 {
		return ci, failf("NewAbsCaptureTimeExtension(%d ns).Timestamp=%#x, the 32.32 NTP value is %#x", c.T, ext.Timestamp, want)
	}
	back := ext.CaptureTime().UnixNano()
	if abs64(back-c.T) > 1 {
		return ci, failf("CaptureTime(NewAbsCaptureTimeExtension(t)) = %d ns, t = %d ns (off by %d ns)", back, c.T, back-c.T)
	}
	// through the wire
	b, err := ext.Marshal()
	if err != nil {
		return ci, failf("Marshal: %v", err)
	}
	var ext2 rtp.AbsCaptureTimeExtension
	if err := ext2.Unmarshal(b); err != nil || abs64(ext2.CaptureTime().UnixNano()-c.T) > 1 {
		return ci, failf("capture time through Marshal/Unmarshal: %d ns vs %d ns (%v)", ext2.CaptureTime().UnixNano(), c.T, err)
	}
	// 2. capture clock offset
	eo := rtp.NewAbsCaptureTimeExtensionWithCaptureClockOffset(t, time.Duration(c.O))
	if eo.EstimatedCaptureClockOffset == nil {
		return ci, failf("offset constructor left EstimatedCaptureClockOffset nil")
	}
	if want := ntp.NsOfQ32(*eo.EstimatedCaptureClockOffset); abs64(want-c.O) > 1 {
		return ci, failf("offset %d ns is stored as Q32.32 %d = %d ns", c.O, *eo.EstimatedCaptureClockOffset, want)
	}
	d := eo.EstimatedCaptureClockOffsetDuration()
	if d == nil {
		return ci, failf("EstimatedCaptureClockOffsetDuration() is nil with an offset set")
	}
	if d2 := eo.EstimatedCaptureClockOffsetDuration(); d2 == nil || *d2 != *d {
		return ci, failf("EstimatedCaptureClockOffsetDuration() read twice from one extension: %v then %v (offset %d ns)", *d, d2, c.O)
	}
	got := int64(*d)
	if abs64(got-c.O) > 1 || (got != 0 && (got < 0) != (c.O < 0)) {
		return ci, failf("capture clock offset %d ns recovered as %d ns", c.O, got)
	}
	// ... and through Marshal/Unmarshal (the offset travels as the second 64-bit word)
	if ob, err := eo.Marshal(); err != nil || len(ob) != 16 {
		return ci, failf("Marshal of an extension with offset: %d bytes, %v", len(ob), err)
	} else {
		var back rtp.AbsCaptureTimeExtension
		if err := back.Unmarshal(ob); err != nil {
			return ci, failf("Unmarshal of the 16-byte form: %v", err)
		}
		bd := back.EstimatedCaptureClockOffsetDuration()
		if bd == nil || abs64(int64(*bd)-c.O) > 1 || (int64(*bd) != 0 && (int64(*bd) < 0) != (c.O < 0)) {
			return ci, failf("capture clock offset %d ns is not recovered after Marshal/Unmarshal (wire %s)", c.O, hx(ob))
		}
	}
	{
		// a by-value copy shares the offset pointer; decoding other bytes into the copy must not reach the original
		cp := *eo
		other := make([]byte, 16)
		for i := range other {
			other[i] = byte(0x35 + 11*i)
		}
		if err := cp.Unmarshal(other); err != nil {
			return ci, failf("Unmarshal of 16 bytes: %v", err)
		}
		if d3 := eo.EstimatedCaptureClockOffsetDuration(); d3 == nil || *d3 != *d {
			return ci, failf("capture clock offset %d ns of an extension reads as %v after a by-value copy of it decoded other bytes", c.O, d3)
		}
	}
	{
		// ... and the other way round: a by-value copy kept by the application (per-packet metadata) still reads the
		// offset it was built with after the original was reused to decode the next packet
		e2 := rtp.NewAbsCaptureTimeExtensionWithCaptureClockOffset(t, time.Duration(c.O))
		saved := *e2
		other := make([]byte, 16)
		for i := range other {
			other[i] = byte(0x53 + 7*i)
		}
		if err := e2.Unmarshal(other); err != nil {
			return ci, failf("Unmarshal of 16 bytes: %v", err)
		}
		if d4 := saved.EstimatedCaptureClockOffsetDuration(); d4 == nil || *d4 != *d {
			return ci, failf("capture clock offset %d ns of a by-value copy reads as %v after the extension it was copied from decoded other bytes", c.O, d4)
		}
		if abs64(saved.CaptureTime().UnixNano()-c.T) > 1 {
			return ci, failf("capture time of a by-value copy moved after the extension it was copied from decoded other bytes")
		}
	}
	{
		// the offset the constructor allocated is the caller's: after writing through it, a new extension built for
		// the same offset is still right (a shared zero value would not be)
		*eo.EstimatedCaptureClockOffset += 5 << 32
		fresh := rtp.NewAbsCaptureTimeExtensionWithCaptureClockOffset(t, time.Duration(c.O))
		fd := fresh.EstimatedCaptureClockOffsetDuration()
		if fd == nil || abs64(int64(*fd)-c.O) > 1 {
			return ci, failf("after the caller changed the offset of an earlier extension through its pointer, a new extension built for offset %d ns reads %v", c.O, fd)
		}
		*eo.EstimatedCaptureClockOffset -= 5 << 32
	}
	if abs64(eo.CaptureTime().UnixNano()-c.T) > 1 {
		return ci, failf("offset constructor: capture time %d vs %d", eo.CaptureTime().UnixNano(), c.T)
	}
	// 3. send-time estimation across 64 s wraps
	recv := inZone(time.Unix(0, c.T+c.D), c.RecvZone)
	full := rtp.NewAbsSendTimeExtension(t)
	if want := ntp.Abs24Floor(c.T); uint32(full.Timestamp&0xFFFFFF) != want {
		return ci, failf("NewAbsSendTimeExtension(%d ns) low 24 bits %#x, 6.18 value of the instant is %#x", c.T, full.Timestamp&0xFFFFFF, want)
	}
	raw, err := full.Marshal()
	if err != nil || len(raw) != 3 {
		return ci, failf("AbsSendTime Marshal: %s %v", hx(raw), err)
	}
	var onWire rtp.AbsSendTimeExtension
	if err := onWire.Unmarshal(raw); err != nil {
		return ci, failf("AbsSendTime Unmarshal: %v", err)
	}
	for _, e := range []*rtp.AbsSendTimeExtension{&onWire, full} {
		stored := e.Timestamp
		est := e.Estimate(recv).UnixNano()
		if again := e.Estimate(recv).UnixNano(); again != est || e.Timestamp != stored {
			return ci, failf("Estimate called twice on one extension: %d ns then %d ns; Timestamp field %#x then %#x", est, again, stored, e.Timestamp)
		}
		if diff := c.T - est; diff < -1 || diff > 3816 {
			return ci, failf("Estimate(send+%d ns) = %d ns for send instant %d ns: off by %d ns (resolution 3815 ns); 24-bit value %#x", c.D, est, c.T, diff, e.Timestamp&0xFFFFFF)
		}
	}
	sendWin, recvWin := (c.T+ntp.EpochOffset*1_000_000_000)/64_000_000_000, (c.T+c.D+ntp.EpochOffset*1_000_000_000)/64_000_000_000
	if sendWin != recvWin {
		ci.class("receive-crosses-64s-wrap")
	}
	if c.D == 0 {
		ci.class("zero-delay")
	}
	if c.D >= maxDelayNs-1 {
		ci.class("max-delay")
	}
	if c.T%1_000_000_000 == 0 {
		ci.class("whole-second")
	}
	if c.O < 0 {
		ci.class("negative-offset")
	}
	ci.Nontrivial = sendWin != recvWin || c.O != 0

	return ci, nil
}

func genTimeCase(t *rapid.T) *TimeCase {
	c := &TimeCase{}
	const wrap = int64(64_000_000_000)
	base1900 := int64(ntp.EpochOffset) * 1_000_000_000
	switch rapid.IntRange(0, 6).Draw(t, "tmode") {
	case 6:
		// at the edges of a 2^-18 s cell of the 24-bit field: the first and the last nanosecond of cell k
		k := rapid.Int64Range(1, eraEndNs/3815-2).Draw(t, "cellk")
		hi, lo := bits.Mul64(uint64(k), 1_000_000_000)
		q, _ := bits.Div64(hi, lo, 1<<18) // floor(k * 10^9 / 2^18): the last whole nanosecond before cell k starts (or its first)
		c.T = int64(q) + rapid.SampledFrom([]int64{-1, 0, 1, 2}).Draw(t, "celldelta")
	case 0:
		c.T = rapid.Int64Range(0, eraEndNs-1).Draw(t, "t")
	case 1, 2:
		// around a 64 s wrap point of the 24-bit field (wrap points are multiples of 64 s since 1900)
		k := rapid.Int64Range(base1900/wrap+1, (base1900+eraEndNs)/wrap-1).Draw(t, "wrapk")
		delta := rapid.OneOf(rapid.SampledFrom([]int64{0, 1, -1, 2, -2, 3814, 3815, 3816, -3814, -3815, -3816, 1000, -1000}),
			rapid.Int64Range(-5_000_000, 5_000_000)).Draw(t, "wrapdelta")
		c.T = k*wrap - base1900 + delta
	case 3:
		s := rapid.Int64Range(0, eraEndNs/1_000_000_000-1).Draw(t, "sec")
		c.T = s*1_000_000_000 + rapid.SampledFrom([]int64{0, 1, 2, -1, -2, 999_999_999, 500_000_000}).Draw(t, "secdelta")
	case 4:
		c.T = rapid.SampledFrom([]int64{0, 1, eraEndNs - 1, eraEndNs - 2, eraEndNs - 64_000_000_000, 1_000_000_000}).Draw(t, "tedge")
	default:
		c.T = rapid.Int64Range(1_600_000_000_000_000_000, 1_900_000_000_000_000_000).Draw(t, "tnow")
	}
	if c.T < 0 {
		c.T = 0
	}
	if c.T >= eraEndNs {
		c.T = eraEndNs - 1
	}
	switch rapid.IntRange(0, 4).Draw(t, "dmode") {
	case 0:
		c.D = rapid.SampledFrom([]int64{0, 1, maxDelayNs, maxDelayNs - 1, 3814, 3815, 3816, 32_000_000_000}).Draw(t, "dedge")
	case 1:
		// carry the receive time just across the next wrap point
		abs := c.T + base1900
		toWrap := wrap - abs%wrap
		c.D = toWrap + rapid.SampledFrom([]int64{-2, -1, 0, 1, 2, 3815, -3815, 1000}).Draw(t, "dwrap")
	default:
		c.D = rapid.Int64Range(0, maxDelayNs).Draw(t, "d")
	}
	if c.D < 0 {
		c.D = 0
	}
	if c.D > maxDelayNs {
		c.D = maxDelayNs
	}
	if c.T+c.D >= eraEndNs {
		c.D = eraEndNs - 1 - c.T
	}
	const maxOff = int64(1<<31)*1_000_000_000 - 1
	switch rapid.IntRange(0, 3).Draw(t, "omode") {
	case 0:
		c.O = rapid.SampledFrom([]int64{0, 1, -1, 2, -2, maxOff, -maxOff, 1_000_000_000, -1_000_000_000, 999_999_999, -999_999_999, 1_000_000_001}).Draw(t, "oedge")
	case 1:
		c.O = rapid.Int64Range(-maxOff/1_000_000_000, maxOff/1_000_000_000).Draw(t, "osec") * 1_000_000_000
	default:
		c.O = rapid.Int64Range(-maxOff, maxOff).Draw(t, "o")
	}
	zone := func(label string) int {
		switch rapid.IntRange(0, 3).Draw(t, label+"mode") {
		case 0:
			return rapid.SampledFrom([]int{3600, -3600, 7200, -28800, 19800, 20700, 50400, -43200, 1172, -1, 1}).Draw(t, label)
		case 1:
			return rapid.IntRange(-50400, 50400).Draw(t, label)
		default:
			return 0
		}
	}
	c.Zone, c.RecvZone = zone("zone"), zone("recvzone")

	return c
}

const ruleC18 = "rapid draws (instant, delay, offset): instants in [1970, NTP era end 2036) uniformly, within +-5 ms (and at +-{0,1,2,3814,3815,3816} ns) of 64 s wrap points of the 24-bit field, at whole seconds +-2 ns, at the first/last nanoseconds of 2^-18 s cells of the field, at the era edges; delays in [0, 64 s - 3815 ns] incl. 0, max and values that carry the receive time just across a wrap; offsets in (-2^31 s, 2^31 s) incl. 0, +-1 ns, +-(2^31 s - 1 ns), whole seconds; the time.Time values carry the default location or (half of the cases) a fixed-offset zone between -14 h and +14 h, independently for the send and the receive instant. Oracle (integer/big.Int arithmetic only): |CaptureTime(New(t)) - t| <= 1 ns, offset recovered within 1 ns with its sign (read twice, and once more after a by-value copy of the extension decoded other bytes, and from a by-value copy after the extension itself decoded other bytes), -1 ns <= t - Estimate(t+d) <= 3816 ns for the 24-bit wire value and the unmasked constructor value (each estimated twice: same answer, extension unchanged), NTP/6.18 encodings equal the exact big.Int reference. Non-trivial = receive time in another 64 s window than the send time, or non-zero offset; distinct = FNV-64 of the JSON case"

func TestC18(t *testing.T) {
	r := begin(t, "C18", "exploration", ruleC18)
	defer r.finish()
	subC18.rapidRun(r, n(60000, 10000000), genTimeCase)
}
