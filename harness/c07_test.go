package harness

// C07 — Sequencer is a linearizable 16-bit counter with exact rollover count.

import (
	"encoding/json"
	"fmt"
	"os"
	"path/filepath"
	"runtime"
	"sort"
	"sync"
	"sync/atomic"
	"testing"

	"github.com/pion/rtp"
	"github.com/pion/rtp/codecs"
	"pgregory.net/rapid"
)

// HistOp is one completed operation of a concurrent history.
type HistOp struct {
	G    int    `json:"g"`
	Kind uint8  `json:"k"` // 0 = NextSequenceNumber, 1 = RollOverCount
	Val  uint64 `json:"v"`
	Inv  int64  `json:"i"`
	Res  int64  `json:"r"`
}

type SeqPlan struct {
	Start      uint16 `json:"start"`
	Goroutines int    `json:"goroutines"`
	OpsPerG    int    `json:"ops_per_g"`
	RollEvery  int    `json:"roll_every"`  // every n-th op of a goroutine is a RollOverCount read (0 = never)
	YieldEvery int    `json:"yield_every"` // Gosched after every n-th op (0 = never)
	YieldPhase []int  `json:"yield_phase"` // per goroutine offset of the yield pattern
	Procs      int    `json:"procs"`       // GOMAXPROCS for the run
	// Random: the sequencer comes from NewRandomSequencer and is stepped by one goroutine until the next value is
	// Start (zeros handed out on the way are subtracted from the RollOverCount values recorded afterwards)
	Random bool `json:"random,omitempty"`
}

type SeqCase struct {
	Plan    SeqPlan  `json:"plan"`
	History []HistOp `json:"history,omitempty"` // when present the recorded history is re-checked as is
	Repeat  int      `json:"repeat,omitempty"`
}

var (
	subC07Burst = register("C07", "wrapburst", checkC07Concurrent)
	subC07Conc  = register("C07", "concurrent", checkC07Concurrent)
	subC07Seq   = register("C07", "sequential", checkC07Sequential)
)

// runPlan executes the plan against a fresh fixed sequencer and records the history.
func runPlan(p *SeqPlan) []HistOp {
	seq := rtp.NewFixedSequencer(p.Start)
	var base uint64
	if p.Random {
		seq = rtp.NewRandomSequencer()
		// (bounded: a sequencer that never reaches the value leaves a history the checker refutes)
		for v, k := seq.NextSequenceNumber(), 0; k < 1<<17; v, k = seq.NextSequenceNumber(), k+1 {
			if v == 0 {
				base++
			}
			if v == p.Start-1 {
				break
			}
		}
	}
	var clock int64
	hist := make([][]HistOp, p.Goroutines)
	var wg sync.WaitGroup
	var gate sync.WaitGroup
	gate.Add(1)
	for g := 0; g < p.Goroutines; g++ {
		wg.Add(1)
		go func(g int) {
			defer wg.Done()
			h := make([]HistOp, 0, p.OpsPerG)
			phase := 0
			if g < len(p.YieldPhase) {
				phase = p.YieldPhase[g]
			}
			gate.Wait()
			for i := 0; i < p.OpsPerG; i++ {
				op := HistOp{G: g}
				if p.RollEvery > 0 && (i+g)%p.RollEvery == p.RollEvery-1 {
					op.Kind = 1
					op.Inv = atomic.AddInt64(&clock, 1)
					op.Val = seq.RollOverCount() - base
					op.Res = atomic.AddInt64(&clock, 1)
				} else {
					op.Inv = atomic.AddInt64(&clock, 1)
					op.Val = uint64(seq.NextSequenceNumber())
					op.Res = atomic.AddInt64(&clock, 1)
				}
				h = append(h, op)
				if p.YieldEvery > 0 && (i+phase)%p.YieldEvery == 0 {
					runtime.Gosched()
				}
			}
			hist[g] = h
		}(g)
	}
	gate.Done()
	wg.Wait()
	var all []HistOp
	for _, h := range hist {
		all = append(all, h...)
	}

	return all
}

// checkCounterHistory decides exactly whether the history is linearizable with
// respect to the specification "Next returns start, start+1, ... mod 2^16;
// RollOverCount returns the number of zeros handed out so far". Greedy with an
// exchange argument (DESIGN.md C07): eligible reads are linearised as soon as
// their value matches; among eligible Nexts with the required value the one with
// the earliest response is taken.
func checkCounterHistory(start uint16, h []HistOp) error {
	nOps := len(h)
	if nOps == 0 {
		return nil
	}
	byRes := make([]int, nOps)
	for i := range byRes {
		byRes[i] = i
	}
	sort.Slice(byRes, func(a, b int) bool { return h[byRes[a]].Res < h[byRes[b]].Res })
	done := make([]bool, nOps)
	pr := 0
	minRes := func() int64 {
		for pr < nOps && done[byRes[pr]] {
			pr++
		}
		if pr == nOps {
			return int64(^uint64(0) >> 1)
		}

		return h[byRes[pr]].Res
	}
	buckets := map[uint16][]int{}
	var reads []int
	nNext := 0
	for i, op := range h {
		if op.Kind == 0 {
			if op.Val > 65535 {
				return failf("NextSequenceNumber returned %d", op.Val)
			}
			buckets[uint16(op.Val)] = append(buckets[uint16(op.Val)], i)
			nNext++
		} else {
			reads = append(reads, i)
		}
	}
	sort.Slice(reads, func(a, b int) bool { return h[reads[a]].Inv < h[reads[b]].Inv })
	openReads := map[uint64][]int{}
	rp := 0
	remaining := nOps
	var zeros uint64
	k := 0
	for remaining > 0 {
		progressed := false
		m := minRes()
		for rp < len(reads) && h[reads[rp]].Inv < m {
			openReads[h[reads[rp]].Val] = append(openReads[h[reads[rp]].Val], reads[rp])
			rp++
		}
		if l := openReads[zeros]; len(l) > 0 {
			for _, i := range l {
				done[i] = true
				remaining--
			}
			delete(openReads, zeros)
			progressed = true

			continue
		}
		if k < nNext {
			want := start + uint16(k)
			best := -1
			for _, i := range buckets[want] {
				if !done[i] && h[i].Inv < m && (best < 0 || h[i].Res < h[best].Res) {
					best = i
				}
			}
			if best >= 0 {
				done[best] = true
				remaining--
				k++
				if want == 0 {
					zeros++
				}
				progressed = true
			}
		}
		if !progressed {
			// describe the obstruction
			blocker := h[byRes[pr]]
			want := start + uint16(k)

			return failf("history is not linearizable: after %d NextSequenceNumber calls (next value must be %d, %d zeros issued) no pending operation can take effect; the earliest-returning pending operation is goroutine %d kind %d value %d [inv %d, res %d]; pending values for %d: %v",
				k, want, zeros, blocker.G, blocker.Kind, blocker.Val, blocker.Inv, blocker.Res, want, describe(h, buckets[want], done))
		}
	}

	return nil
}

func describe(h []HistOp, idx []int, done []bool) []string {
	var out []string
	for _, i := range idx {
		if !done[i] {
			out = append(out, fmt.Sprintf("g%d[%d,%d]", h[i].G, h[i].Inv, h[i].Res))
		}
	}

	return out
}

// overlapPairs counts pairs of operations of different goroutines whose intervals overlap (capped).
func overlapPairs(h []HistOp) int {
	idx := make([]int, len(h))
	for i := range idx {
		idx[i] = i
	}
	sort.Slice(idx, func(a, b int) bool { return h[idx[a]].Inv < h[idx[b]].Inv })
	cnt := 0
	for a := 0; a+1 < len(idx) && cnt < 1_000_000; a++ {
		x := h[idx[a]]
		for b := a + 1; b < len(idx) && h[idx[b]].Inv < x.Res; b++ {
			if h[idx[b]].G != x.G {
				cnt++
			}
		}
	}

	return cnt
}

var lastPlanPath string

var c07Race bool

func checkC07Concurrent(r *run, c *SeqCase) (CaseInfo, error) {
	var ci CaseInfo
	p := &c.Plan
	reps := 1
	if c.Repeat > 0 {
		reps = c.Repeat
	}
	oldProcs := runtime.GOMAXPROCS(p.Procs)
	defer runtime.GOMAXPROCS(oldProcs)
	for rep := 0; rep < reps; rep++ {
		h := c.History
		if h == nil || rep > 0 {
			if lastPlanPath != "" {
				b, _ := json.Marshal(replayFile{Property: "C07", Sub: "concurrent", Seed: envSeed, Error: "plan running when a data race was reported", Case: mustJSON(SeqCase{Plan: *p, Repeat: 20})})
				_ = os.WriteFile(lastPlanPath, b, 0o644)
			}
			h = runPlan(p)
		}
		total := len(h)
		nNext := 0
		var zeros uint64
		seen := map[uint64]int{}
		for _, op := range h {
			if op.Kind == 0 {
				nNext++
				seen[op.Val]++
				if op.Val == 0 {
					zeros++
				}
			}
		}
		ov := overlapPairs(h)
		wrapsN := (int(p.Start) + nNext) / 65536
		if rep == 0 {
			ci.class(fmt.Sprintf("goroutines:%d", p.Goroutines))
			ci.class(fmt.Sprintf("procs:%d", p.Procs))
		}
		if rep == 0 && p.Random {
			ci.class("random-sequencer-stepped-to-the-start")
		}
		if rep == 0 && ov > 0 {
			ci.class("overlapping-intervals")
		}
		if rep == 0 && wrapsN > 0 {
			ci.class("wraps")
		}
		if p.Goroutines >= 2 && ov > 0 && wrapsN >= 1 {
			ci.Nontrivial = true
		}
		if err := checkCounterHistory(p.Start, h); err != nil {
			if c.History == nil {
				c.History = h
			}

			return ci, failf("%v (plan %+v, %d operations, %d overlapping pairs)", err, *p, total, ov)
		}
		// direct consequences (redundant with linearizability, cheap, independent code)
		distinctWant := nNext
		if distinctWant > 65536 {
			distinctWant = 65536
		}
		bad := len(seen) != distinctWant
		for k0 := 0; k0 < distinctWant && !bad; k0++ {
			v := uint64(p.Start + uint16(k0))
			if seen[v] != (nNext-k0-1)/65536+1 {
				bad = true
			}
		}
		if bad {
			if c.History == nil {
				c.History = h
			}

			return ci, failf("the multiset of values handed out is not {start, start+1, ...} (start %d, %d calls, %d distinct values)", p.Start, nNext, len(seen))
		}
		_ = zeros
	}

	return ci, nil
}

func mustJSON(v any) json.RawMessage {
	b, err := json.Marshal(v)
	if err != nil {
		panic(err)
	}

	return b
}

// SeqSweep steps one fixed sequencer from start through steps calls.
type SeqSweep struct {
	Start uint16 `json:"start"`
	Steps int    `json:"steps"`
}

func checkC07Sequential(r *run, c *SeqSweep) (CaseInfo, error) {
	var ci CaseInfo
	s := rtp.NewFixedSequencer(c.Start)
	if got := s.RollOverCount(); got != 0 {
		return ci, failf("fresh fixed sequencer(%d): RollOverCount=%d", c.Start, got)
	}
	var zeros uint64
	var prev uint64
	for i := 0; i < c.Steps; i++ {
		v := s.NextSequenceNumber()
		want := c.Start + uint16(i)
		if v != want {
			return ci, failf("fixed sequencer(%d): call %d returned %d, want %d", c.Start, i, v, want)
		}
		if v == 0 {
			zeros++
		}
		roc := s.RollOverCount()
		if roc != zeros {
			return ci, failf("fixed sequencer(%d): after call %d (value %d) RollOverCount=%d, zeros handed out %d", c.Start, i, v, roc, zeros)
		}
		ext := roc*65536 + uint64(v)
		if i > 0 && ext <= prev {
			return ci, failf("fixed sequencer(%d): extended sequence number not increasing at call %d: %d after %d", c.Start, i, ext, prev)
		}
		prev = ext
	}
	ci.Nontrivial = c.Steps > 65536-int(c.Start)
	if ci.Nontrivial {
		ci.class("sweep-wraps")
	}
	// the same sweep on a second sequencer whose RollOverCount is read only at the very end (an application that
	// looks at the count once per report interval): the count does not depend on how often it is read
	if c.Steps <= 1<<20 {
		quiet := rtp.NewFixedSequencer(c.Start)
		for i := 0; i < c.Steps; i++ {
			quiet.NextSequenceNumber()
		}
		if roc := quiet.RollOverCount(); roc != zeros {
			return ci, failf("fixed sequencer(%d): RollOverCount read once after %d calls = %d, %d zeros were handed out (a sequencer read after every call reports %d)", c.Start, c.Steps, roc, zeros, zeros)
		}
	}

	return ci, nil
}

// genWrapBurst draws a plan that concentrates many goroutines on the few calls
// around the 65535 -> 0 wrap, repeated for many trials on fresh sequencers: the
// window in which a non-atomic rollover update is observable opens once per wrap, so
// short histories that all contain a wrap multiply the opportunities.
func genWrapBurst(t *rapid.T) *SeqCase {
	g := rapid.IntRange(2, 16).Draw(t, "goroutines")
	per := rapid.IntRange(2, 24).Draw(t, "opsperg")
	before := rapid.IntRange(0, g*per-1).Draw(t, "before") // calls before the wrap
	p := SeqPlan{
		Start:      uint16(65536 - before%65536),
		Goroutines: g,
		OpsPerG:    per,
		RollEvery:  rapid.SampledFrom([]int{2, 2, 3}).Draw(t, "rollevery"),
		YieldEvery: rapid.SampledFrom([]int{0, 0, 1, 3}).Draw(t, "yieldevery"),
		Procs:      rapid.SampledFrom([]int{2, 4, 16, 16}).Draw(t, "procs"),
		Random:     rapid.IntRange(0, 2).Draw(t, "randomseq") == 1,
	}
	for i := 0; i < g; i++ {
		p.YieldPhase = append(p.YieldPhase, rapid.IntRange(0, 7).Draw(t, "phase"))
	}

	reps := n(600, 3000)
	if c07Race {
		reps = n(250, 1500)
	}

	return &SeqCase{Plan: p, Repeat: reps}
}

func genSeqCase(t *rapid.T) *SeqCase {
	p := SeqPlan{
		Start:      uint16(biased(t, "start", 0, 65535, 0, 1, 65534, 65535, 32768)),
		Goroutines: rapid.IntRange(2, 16).Draw(t, "goroutines"),
		RollEvery:  rapid.SampledFrom([]int{0, 2, 3, 5, 16, 64}).Draw(t, "rollevery"),
		YieldEvery: rapid.SampledFrom([]int{0, 1, 2, 7, 64, 1000}).Draw(t, "yieldevery"),
		Procs:      rapid.SampledFrom([]int{2, 4, 16}).Draw(t, "procs"),
		Random:     rapid.IntRange(0, 2).Draw(t, "randomseq") == 1,
	}
	hi := n(160_000, 400_000)
	if c07Race && !thorough() {
		hi = 90_000 // the race detector slows every operation down about tenfold
	}
	total := rapid.IntRange(70_000, hi).Draw(t, "totalops")
	if !c07Race && rapid.IntRange(0, 5).Draw(t, "longhistory") == 0 {
		total = rapid.IntRange(330_000, 460_000).Draw(t, "totalopslong") // five to seven wraps
	}
	p.OpsPerG = total / p.Goroutines
	for g := 0; g < p.Goroutines; g++ {
		p.YieldPhase = append(p.YieldPhase, rapid.IntRange(0, 63).Draw(t, "phase"))
	}

	return &SeqCase{Plan: p}
}

// selfTestChecker makes sure the checker rejects hand-made non-linearizable
// histories and accepts legal ones (a checker that accepts everything is decoration).
func selfTestChecker() error {
	ok := []HistOp{{0, 0, 5, 1, 2}, {1, 0, 6, 3, 4}, {0, 1, 0, 5, 6}}
	if err := checkCounterHistory(5, ok); err != nil {
		return failf("checker rejects a legal sequential history: %v", err)
	}
	conc := []HistOp{{0, 0, 6, 1, 4}, {1, 0, 5, 2, 3}} // overlapping, out of order by invocation: legal
	if err := checkCounterHistory(5, conc); err != nil {
		return failf("checker rejects a legal concurrent history: %v", err)
	}
	bad := []struct {
		start uint16
		h     []HistOp
	}{
		{5, []HistOp{{0, 0, 6, 1, 2}, {1, 0, 5, 3, 4}}},                          // 6 returned strictly before 5
		{5, []HistOp{{0, 0, 5, 1, 2}, {1, 0, 5, 3, 4}}},                          // duplicate
		{5, []HistOp{{0, 0, 5, 1, 2}, {1, 0, 7, 3, 4}}},                          // gap
		{65535, []HistOp{{0, 0, 65535, 1, 2}, {0, 0, 0, 3, 4}, {1, 1, 0, 5, 6}}}, // rollover read stale after 0 was issued
		{65535, []HistOp{{0, 0, 65535, 1, 2}, {1, 1, 1, 3, 4}, {0, 0, 0, 5, 6}}}, // rollover read early
		{65535, []HistOp{{0, 0, 65535, 1, 2}, {0, 0, 1, 3, 4}}},                  // 65535 followed by 1
	}
	for i, b := range bad {
		if checkCounterHistory(b.start, b.h) == nil {
			return failf("checker accepts non-linearizable history #%d", i)
		}
	}
	legalWrap := []HistOp{{0, 0, 65535, 1, 2}, {1, 1, 0, 3, 8}, {0, 0, 0, 4, 5}, {0, 1, 1, 6, 7}} // read 0 overlaps the wrap: legal
	if err := checkCounterHistory(65535, legalWrap); err != nil {
		return failf("checker rejects a legal history around the wrap: %v", err)
	}

	return nil
}

const ruleC07 = "concurrent: rapid draws a plan (start value biased to 0,1,65534,65535; 2-16 goroutines; 70k-400k operations so that the value wraps 1-6 times; RollOverCount read mix; Gosched pattern; GOMAXPROCS 2/4/16; one plan in three takes its sequencer from NewRandomSequencer and steps it with one goroutine up to the plan's start value first, here and in wrapburst); every operation is recorded with invocation/response stamps from one atomic counter and the complete history is decided by an exact linearizability checker for the counter specification (greedy with exchange argument, self-tested on hand-made illegal histories), plus multiset-of-values check; half of the shards run under the Go race detector. wrapburst: plans that put 2-16 goroutines x 2-24 calls (Next alternating with RollOverCount) right around the 65535->0 wrap, each repeated for 600 (thorough 3000) trials on fresh sequencers, every trial's history decided by the same checker. sequential: fixed sequencers stepped through two wraps from boundary/drawn starts (thorough: all 65536 starts), RollOverCount = zeros issued after every call, and on a second sequencer read only once at the end; NewRandomSequencer first value < 2^15, every thousandth one stepped through two wraps. viapacketizer: a fixed sequencer (start biased to the wrap) driven by a Packetizer through 1-12 Packetize/GeneratePadding calls of 1-8 packets: consecutive numbers on the packets, RollOverCount = zeros handed out after every call. packetizerconcurrent: a Packetizer and 1-8 goroutines draw 50-400 values each from one fixed sequencer at the same time (60 trials per plan, 10 under the race detector): every value unique, consecutive from the start, RollOverCount = zeros. randomconcurrent: 2-16 goroutines make the very first 1-100 calls each on one fresh random sequencer together (300 trials per plan, 40 under the race detector): values handed out are min..min+N-1 without duplicate or gap, increasing per goroutine, min < 2^15, RollOverCount 0. Non-trivial = history with overlapping operations of different goroutines and >=1 wrap, or a sweep that wraps; distinct = FNV-64 of the plan"

func TestC07(t *testing.T) {
	r := begin(t, "C07", "exploration", ruleC07)
	defer r.finish()
	if err := selfTestChecker(); err != nil {
		t.Fatalf("checker self-test: %v", err)
	}
	race := os.Getenv("VERIF_RACE") == "1"
	c07Race = race
	if envOut != "" {
		lastPlanPath = filepath.Join(envOut, fmt.Sprintf("lastplan-%d.json", envShard))
	}
	shrinkTime = "3s"
	defer func() { shrinkTime = "30s" }()
	if race {
		subC07Conc.rapidRun(r, n(3, 12), genSeqCase)
		subC07Burst.rapidRun(r, n(8, 40), genWrapBurst)
	} else {
		subC07Conc.rapidRun(r, n(6, 40), genSeqCase)
		subC07Burst.rapidRun(r, n(50, 300), genWrapBurst)
	}
	lastPlanPath = ""
	// random sequencers under concurrent FIRST calls (a lazily initialised start would show here)
	subC07RandConc.rapidRun(r, n(6, 30), func(t *rapid.T) *RandConcCase {
		return &RandConcCase{Goroutines: rapid.SampledFrom([]int{2, 3, 4, 8, 16}).Draw(t, "g"), Calls: rapid.SampledFrom([]int{1, 2, 3, 8, 100}).Draw(t, "calls"),
			Trials: map[bool]int{true: 40, false: 300}[race], Procs: rapid.SampledFrom([]int{2, 4, 16}).Draw(t, "procs")}
	})
	// a Packetizer and direct callers sharing one sequencer (also under the race detector)
	subC07PktzConc.rapidRun(r, n(4, 20), func(t *rapid.T) *PktzConcCase {
		return &PktzConcCase{Start: uint16(biased(t, "start", 0, 65535, 0, 65000, 65400, 65535)), Callers: rapid.SampledFrom([]int{1, 2, 4, 8}).Draw(t, "callers"),
			PerSide: rapid.SampledFrom([]int{50, 200, 400}).Draw(t, "perside"), Trials: map[bool]int{true: 10, false: 60}[race], Procs: rapid.SampledFrom([]int{2, 4, 16}).Draw(t, "procs")}
	})
	if race {
		r.col.Note("this shard ran under the Go race detector")

		return
	}
	// sequential sweeps
	if thorough() {
		cnt := 0
		for s := 0; s < 65536; s++ {
			if !mine(s) {
				continue
			}
			c := &SeqSweep{Start: uint16(s), Steps: (65536 - s) + 65536 + 2}
			info, err := subC07Seq.exec(r, c)
			if err != nil {
				subC07Seq.one(r, c)

				break
			}
			if info.Nontrivial {
				cnt++
			}
		}
		r.col.Bulk("sequential", int64(cnt), int64(cnt), map[string]int64{"sweep-wraps": int64(cnt)})
		if envShard == 1 || envShards == 1 {
			// one sequencer driven through more than 2^32 calls (65538 wraps): RollOverCount is a
			// 64-bit count and must keep counting past 65535 (a packed 16+16-bit state would not)
			deep := &SeqSweep{Start: 1, Steps: 1<<32 + 1<<17 + 5}
			if subC07Seq.one(r, deep) {
				r.col.Note("deep sweep: one fixed sequencer stepped through 2^32+2^17 calls (65538 wraps)")
			}
		}
		r.col.Exhaustive("C07 fixed sequencer: all 65536 start values, each stepped through two wraps", envShards == 1)
	} else {
		subC07Seq.rapidRun(r, n(150, 150), func(t *rapid.T) *SeqSweep {
			s := biased(t, "start", 0, 65535, 0, 1, 2, 32767, 32768, 65533, 65534, 65535)

			steps := (65536 - s) + 65536 + 2
			if rapid.IntRange(0, 9).Draw(t, "manywraps") == 0 {
				steps += 65536 * rapid.IntRange(1, 5).Draw(t, "extrawraps") // up to seven wraps
			}

			return &SeqSweep{Start: uint16(s), Steps: steps}
		})
	}
	// the sequencer as applications drive it: through a Packetizer
	subC07Pktz.rapidRun(r, n(300, 3000), func(t *rapid.T) *PktzSeqCase {
		c := &PktzSeqCase{Start: uint16(biased(t, "start", 0, 65535, 0, 1, 65520, 65530, 65533, 65534, 65535))}
		for i, k := 0, rapid.IntRange(1, 12).Draw(t, "ncalls"); i < k; i++ {
			n := rapid.SampledFrom([]int{1, 1, 1, 2, 3, 5, 8, -1, -2, -3}).Draw(t, "npkts")
			c.Packets = append(c.Packets, n)
		}

		return c
	})
	// random sequencer: first value below 2^15
	subC07Rand.one(r, &RandSeqCase{Samples: n(20000, 100000)})
}

// RandSeqCase samples NewRandomSequencer.
type RandSeqCase struct {
	Samples int `json:"samples"`
}

var subC07Rand = register("C07", "random", func(r *run, c *RandSeqCase) (CaseInfo, error) {
	var ci CaseInfo
	ci.class("random-sequencer-batch")
	for i := 0; i < c.Samples; i++ {
		s := rtp.NewRandomSequencer()
		if roc := s.RollOverCount(); roc != 0 {
			return ci, failf("fresh random sequencer has RollOverCount %d", roc)
		}
		v := s.NextSequenceNumber()
		if v >= 1<<15 {
			return ci, failf("NewRandomSequencer started at %d (>= 2^15)", v)
		}
		if w := s.NextSequenceNumber(); w != v+1 {
			return ci, failf("random sequencer: %d followed by %d", v, w)
		}
		if i%1000 == 0 {
			// every thousandth one is stepped through two wraps: +1 per call, RollOverCount = zeros handed out
			prev, zeros := v+1, uint64(0)
			for k := 0; k < 2*65536+10; k++ {
				w := s.NextSequenceNumber()
				if w != prev+1 {
					return ci, failf("random sequencer started at %d: %d followed by %d (call %d)", v, prev, w, k+3)
				}
				if w == 0 {
					zeros++
				}
				if k%4099 == 0 || w <= 1 {
					if roc := s.RollOverCount(); roc != zeros {
						return ci, failf("random sequencer started at %d: RollOverCount %d after %d zeros (last value %d)", v, roc, zeros, w)
					}
				}
				prev = w
			}
			ci.class("random-sequencer-through-two-wraps")
		}
	}

	return ci, nil
})

// RandConcCase: several goroutines make the very FIRST calls on one random sequencer together.
// The start value is unknown, so the oracle is the shape of the result: the values handed out are
// min, min+1, ..., min+N-1 (no duplicate, no gap; N <= 20000 so no wrap from a start < 2^15), every
// goroutine sees its own values increase, min < 2^15, RollOverCount stays 0.
type RandConcCase struct {
	Goroutines int `json:"goroutines"`
	Calls      int `json:"calls"` // per goroutine
	Trials     int `json:"trials"`
	Procs      int `json:"procs"`
}

var subC07RandConc = register("C07", "randomconcurrent", func(r *run, c *RandConcCase) (CaseInfo, error) {
	var ci CaseInfo
	ci.class("random-sequencer-concurrent-first-calls")
	ci.Nontrivial = true
	old := runtime.GOMAXPROCS(c.Procs)
	defer runtime.GOMAXPROCS(old)
	total := c.Goroutines * c.Calls
	for trial := 0; trial < c.Trials; trial++ {
		seq := rtp.NewRandomSequencer()
		got := make([][]uint16, c.Goroutines)
		var ready, done sync.WaitGroup
		start := make(chan struct{})
		for g := 0; g < c.Goroutines; g++ {
			ready.Add(1)
			done.Add(1)
			go func(g int) {
				defer done.Done()
				vals := make([]uint16, 0, c.Calls)
				ready.Done()
				<-start
				for k := 0; k < c.Calls; k++ {
					vals = append(vals, seq.NextSequenceNumber())
				}
				got[g] = vals
			}(g)
		}
		ready.Wait()
		close(start)
		done.Wait()
		seen := make(map[uint16]int, total)
		minV := uint16(65535)
		for g, vals := range got {
			for k, v := range vals {
				seen[v]++
				if v < minV {
					minV = v
				}
				if k > 0 && v <= vals[k-1] {
					return ci, failf("trial %d: goroutine %d received %d after %d from one random sequencer (%d goroutines x %d first calls)", trial, g, v, vals[k-1], c.Goroutines, c.Calls)
				}
			}
		}
		if minV >= 1<<15 {
			return ci, failf("trial %d: smallest value handed out is %d (>= 2^15)", trial, minV)
		}
		for i := 0; i < total; i++ {
			if n := seen[minV+uint16(i)]; n != 1 {
				return ci, failf("trial %d: %d goroutines x %d first calls on one random sequencer: value %d (smallest %d + %d) handed out %d times; %d distinct values for %d calls", trial, c.Goroutines, c.Calls, minV+uint16(i), minV, i, n, len(seen), total)
			}
		}
		if roc := seq.RollOverCount(); roc != 0 {
			return ci, failf("trial %d: RollOverCount %d after %d calls from a start below 2^15", trial, roc, total)
		}
	}

	return ci, nil
})

// PktzSeqCase: the sequencer is driven by a Packetizer (the way applications use it) rather than called
// directly: the numbers on the packets are consecutive and RollOverCount equals the zeros handed out so far.
type PktzSeqCase struct {
	Start   uint16 `json:"start"`
	Packets []int  `json:"packets"` // packets per call; negative = GeneratePadding(-n)
}

var subC07Pktz = register("C07", "viapacketizer", func(r *run, c *PktzSeqCase) (CaseInfo, error) {
	var ci CaseInfo
	seq := rtp.NewFixedSequencer(c.Start)
	const mtu = 112 // 100 payload bytes per packet
	pk := rtp.NewPacketizer(mtu, 96, 0x1234, &codecs.G711Payloader{}, seq, 8000)
	next, zeros := c.Start, uint64(0)
	for i, n := range c.Packets {
		var pkts []*rtp.Packet
		if n < 0 {
			pkts = pk.GeneratePadding(uint32(-n))
			n = -n
		} else {
			pkts = pk.Packetize(make([]byte, 100*n), 160)
		}
		if len(pkts) != n {
			return ci, failf("call %d: %d packets, want %d", i, len(pkts), n)
		}
		for j, p := range pkts {
			if p.SequenceNumber != next {
				return ci, failf("call %d packet %d: sequence number %d, want %d (fixed sequencer started at %d)", i, j, p.SequenceNumber, next, c.Start)
			}
			if next == 0 {
				zeros++
				ci.Nontrivial = true
			}
			next++
		}
		if roc := seq.RollOverCount(); roc != zeros {
			return ci, failf("after call %d (%d packets, last sequence number %d) of a packetizer: RollOverCount %d, %d zeros were handed out (start %d)", i, n, next-1, roc, zeros, c.Start)
		}
	}

	return ci, nil
})

// PktzConcCase: a Packetizer and other goroutines draw from ONE sequencer at the same time. Every value handed
// out - on a packet or to a direct caller - is unique and the values are consecutive from the start.
type PktzConcCase struct {
	Start   uint16 `json:"start"`
	Callers int    `json:"callers"` // goroutines calling NextSequenceNumber directly
	PerSide int    `json:"per_side"`
	Trials  int    `json:"trials"`
	Procs   int    `json:"procs"`
}

var subC07PktzConc = register("C07", "packetizerconcurrent", func(r *run, c *PktzConcCase) (CaseInfo, error) {
	var ci CaseInfo
	ci.Nontrivial = true
	old := runtime.GOMAXPROCS(c.Procs)
	defer runtime.GOMAXPROCS(old)
	total := c.PerSide * (c.Callers + 1)
	for trial := 0; trial < c.Trials; trial++ {
		seq := rtp.NewFixedSequencer(c.Start)
		pk := rtp.NewPacketizer(112, 96, 1, &codecs.G711Payloader{}, seq, 8000)
		got := make([][]uint16, c.Callers+1)
		var ready, done sync.WaitGroup
		start := make(chan struct{})
		for g := 0; g <= c.Callers; g++ {
			ready.Add(1)
			done.Add(1)
			go func(g int) {
				defer done.Done()
				vals := make([]uint16, 0, c.PerSide)
				ready.Done()
				<-start
				if g == 0 {
					for len(vals) < c.PerSide {
						for _, p := range pk.Packetize(make([]byte, 100*mini(4, c.PerSide-len(vals))), 160) {
							vals = append(vals, p.SequenceNumber)
						}
					}
				} else {
					for k := 0; k < c.PerSide; k++ {
						vals = append(vals, seq.NextSequenceNumber())
					}
				}
				got[g] = vals
			}(g)
		}
		ready.Wait()
		close(start)
		done.Wait()
		seen := make(map[uint16]int, total)
		for _, vals := range got {
			for _, v := range vals {
				seen[v]++
			}
		}
		zeros := uint64(0)
		for i := 0; i < total; i++ {
			v := c.Start + uint16(i)
			if seen[v] != 1 {
				return ci, failf("trial %d: a Packetizer and %d goroutines drew %d values each from one sequencer started at %d: value %d handed out %d times (%d distinct values for %d draws)", trial, c.Callers, c.PerSide, c.Start, v, seen[v], len(seen), total)
			}
			if v == 0 {
				zeros++
			}
		}
		if roc := seq.RollOverCount(); roc != zeros {
			return ci, failf("trial %d: RollOverCount %d, %d zeros were handed out", trial, roc, zeros)
		}
	}

	return ci, nil
})
