package harness

// C17 — Fixed-size header-extension payload codecs are bit-exact and total.

import (
	"bytes"
	"encoding/binary"
	"fmt"
	"testing"

	"github.com/pion/rtp"
	"pgregory.net/rapid"
)

// FixedCase: Raw == nil -> encode check of the value (A,B,Voice,Offset);
// Raw != nil -> decode check of Raw into a receiver preloaded with the value.
type FixedCase struct {
	Codec     string   `json:"codec"` // audiolevel | transportcc | playoutdelay | abssendtime | abscapturetime
	A         uint64   `json:"a"`
	B         uint64   `json:"b"`
	Voice     bool     `json:"voice"`
	HasOffset bool     `json:"has_offset"`
	Offset    int64    `json:"offset"`
	Raw       HexBytes `json:"raw"`
	Decode    bool     `json:"decode"`
	// PreloadSame: the receiver's first field (timestamp / sequence / min delay / level) is
	// preloaded with the very value the input encodes, the remaining fields with other values
	PreloadSame bool `json:"preload_same"`
}

var subC17 = register("C17", "fixed", checkC17)

func fixedSize(codec string) int {
	switch codec {
	case "audiolevel":
		return 1
	case "transportcc":
		return 2
	case "playoutdelay", "abssendtime":
		return 3
	default:
		return 8
	}
}

// marshalOwned: the caller owns what Marshal returned. Overwrite it and append to it, as a caller assembling a
// packet may, and encode the same value again: the layout must still be the specified one.
func marshalOwned(b, want []byte, again func() ([]byte, error), what string) error {
	for i := range b {
		b[i] ^= 0xFF
	}
	if cap(b) > len(b) {
		full := b[:cap(b)]
		for i := len(b); i < len(full); i++ {
			full[i] ^= 0xFF
		}
	}
	b2, err := again()
	if err != nil || !bytes.Equal(b2, want) {
		return failf("%s: after the caller overwrote (and appended to) the buffer an earlier Marshal returned, Marshal() = (%s,%v), want %s", what, hx(b2), err, hx(want))
	}

	return nil
}

func checkC17(r *run, c *FixedCase) (CaseInfo, error) {
	var ci CaseInfo
	if c.Decode {
		return checkC17Decode(r, c)
	}
	ci.class("encode:" + c.Codec)
	ci.Nontrivial = true
	switch c.Codec {
	case "audiolevel":
		e := rtp.AudioLevelExtension{Level: uint8(c.A), Voice: c.Voice}
		b, err := e.Marshal()
		if c.A > 127 {
			ci.class("out-of-range")
			if err == nil || b != nil {
				return ci, failf("AudioLevel{%d,%v}.Marshal() = (%s,%v), want an error and no bytes", c.A, c.Voice, hx(b), err)
			}

			return ci, nil
		}
		want := byte(c.A)
		if c.Voice {
			want |= 0x80
		}
		if err != nil || !bytes.Equal(b, []byte{want}) {
			return ci, failf("AudioLevel{%d,%v}.Marshal() = (%s,%v), want %02x", c.A, c.Voice, hx(b), err, want)
		}
		var d rtp.AudioLevelExtension
		if err := d.Unmarshal(b); err != nil || d != e {
			return ci, failf("AudioLevel round trip: %+v -> %s -> %+v (%v)", e, hx(b), d, err)
		}
		if err := marshalOwned(b, []byte{want}, e.Marshal, "AudioLevel"); err != nil {
			return ci, err
		}
	case "transportcc":
		e := rtp.TransportCCExtension{TransportSequence: uint16(c.A)}
		b, err := e.Marshal()
		want := []byte{byte(c.A >> 8), byte(c.A)}
		if err != nil || !bytes.Equal(b, want) {
			return ci, failf("TransportCC{%d}.Marshal() = (%s,%v), want %s", c.A, hx(b), err, hx(want))
		}
		var d rtp.TransportCCExtension
		if err := d.Unmarshal(b); err != nil || d != e {
			return ci, failf("TransportCC round trip: %+v -> %s -> %+v (%v)", e, hx(b), d, err)
		}
		if err := marshalOwned(b, want, e.Marshal, "TransportCC"); err != nil {
			return ci, err
		}
	case "playoutdelay":
		e := rtp.PlayoutDelayExtension{MinDelay: uint16(c.A), MaxDelay: uint16(c.B)}
		b, err := e.Marshal()
		if c.A > 4095 || c.B > 4095 {
			ci.class("out-of-range")
			if err == nil || b != nil {
				return ci, failf("PlayoutDelay{%d,%d}.Marshal() = (%s,%v), want an error and no bytes", c.A, c.B, hx(b), err)
			}

			return ci, nil
		}
		v := uint32(c.A)<<12 | uint32(c.B)
		want := []byte{byte(v >> 16), byte(v >> 8), byte(v)}
		if err != nil || !bytes.Equal(b, want) {
			return ci, failf("PlayoutDelay{%d,%d}.Marshal() = (%s,%v), want %s", c.A, c.B, hx(b), err, hx(want))
		}
		var d rtp.PlayoutDelayExtension
		if err := d.Unmarshal(b); err != nil || d != e {
			return ci, failf("PlayoutDelay round trip: %+v -> %s -> %+v (%v)", e, hx(b), d, err)
		}
		if err := marshalOwned(b, want, e.Marshal, "PlayoutDelay"); err != nil {
			return ci, err
		}
	case "abssendtime":
		e := rtp.AbsSendTimeExtension{Timestamp: c.A}
		b, err := e.Marshal()
		want := []byte{byte(c.A >> 16), byte(c.A >> 8), byte(c.A)}
		if err != nil || !bytes.Equal(b, want) {
			return ci, failf("AbsSendTime{%#x}.Marshal() = (%s,%v), want %s", c.A, hx(b), err, hx(want))
		}
		var d rtp.AbsSendTimeExtension
		if err := d.Unmarshal(b); err != nil || d.Timestamp != c.A&0xFFFFFF {
			return ci, failf("AbsSendTime round trip: %#x -> %s -> %#x (%v)", c.A, hx(b), d.Timestamp, err)
		}
		if err := marshalOwned(b, want, e.Marshal, "AbsSendTime"); err != nil {
			return ci, err
		}
		if c.A > 0xFFFFFF {
			ci.class("abssendtime-64bit-value")
		}
	case "abscapturetime":
		e := rtp.AbsCaptureTimeExtension{Timestamp: c.A}
		want := binary.BigEndian.AppendUint64(nil, c.A)
		if c.HasOffset {
			off := c.Offset
			e.EstimatedCaptureClockOffset = &off
			want = binary.BigEndian.AppendUint64(want, uint64(c.Offset))
			ci.class("abscapturetime-with-offset")
		}
		b, err := e.Marshal()
		if err != nil || !bytes.Equal(b, want) {
			return ci, failf("AbsCaptureTime{%#x,%v %d}.Marshal() = (%s,%v), want %s", c.A, c.HasOffset, c.Offset, hx(b), err, hx(want))
		}
		var d rtp.AbsCaptureTimeExtension
		if err := d.Unmarshal(b); err != nil || d.Timestamp != c.A || (d.EstimatedCaptureClockOffset != nil) != c.HasOffset ||
			(c.HasOffset && *d.EstimatedCaptureClockOffset != c.Offset) {
			return ci, failf("AbsCaptureTime round trip of %s failed: %+v (%v)", hx(b), d, err)
		}
		if err := marshalOwned(b, want, e.Marshal, "AbsCaptureTime"); err != nil {
			return ci, err
		}
	default:
		return ci, failf("unknown codec %q", c.Codec)
	}

	return ci, nil
}

// checkC17Decode decodes Raw into a receiver that already holds (A,B,Voice,Offset).
func checkC17Decode(r *run, c *FixedCase) (CaseInfo, error) {
	var ci CaseInfo
	size := fixedSize(c.Codec)
	raw := clone(c.Raw)
	short := len(raw) < size
	ci.class("decode:" + c.Codec)
	if short {
		ci.class("decode-short")
	} else if len(raw) > size {
		ci.class("decode-trailing-bytes")
	}
	ci.Nontrivial = true
	if c.PreloadSame && !short {
		ci.class("decode-receiver-preloaded-with-the-same-first-field")
		switch c.Codec {
		case "audiolevel":
			c = &FixedCase{Codec: c.Codec, Decode: true, Raw: c.Raw, A: uint64(raw[0] & 0x7F), Voice: raw[0]&0x80 == 0}
		case "transportcc":
			c = &FixedCase{Codec: c.Codec, Decode: true, Raw: c.Raw, A: uint64(raw[0])<<8 | uint64(raw[1])}
		case "playoutdelay":
			c = &FixedCase{Codec: c.Codec, Decode: true, Raw: c.Raw, A: uint64(raw[0])<<4 | uint64(raw[1])>>4, B: c.B}
		case "abssendtime":
			c = &FixedCase{Codec: c.Codec, Decode: true, Raw: c.Raw, A: uint64(raw[0])<<16 | uint64(raw[1])<<8 | uint64(raw[2])}
		default:
			c = &FixedCase{Codec: c.Codec, Decode: true, Raw: c.Raw, A: binary.BigEndian.Uint64(raw), HasOffset: c.HasOffset, Offset: c.Offset}
		}
	}
	fail := func(got any, err error) error {
		return failf("%s.Unmarshal(%s) into a receiver holding (%d,%d,%v,%v %d) = %+v, err %v", c.Codec, hx(c.Raw), c.A, c.B, c.Voice, c.HasOffset, c.Offset, got, err)
	}
	switch c.Codec {
	case "audiolevel":
		d := rtp.AudioLevelExtension{Level: uint8(c.A), Voice: c.Voice}
		err := d.Unmarshal(raw)
		if short != (err != nil) {
			return ci, fail(d, err)
		}
		if !short && (d.Level != raw[0]&0x7F || d.Voice != (raw[0]&0x80 != 0)) {
			return ci, fail(d, err)
		}
	case "transportcc":
		d := rtp.TransportCCExtension{TransportSequence: uint16(c.A)}
		err := d.Unmarshal(raw)
		if short != (err != nil) {
			return ci, fail(d, err)
		}
		if !short && d.TransportSequence != uint16(raw[0])<<8|uint16(raw[1]) {
			return ci, fail(d, err)
		}
	case "playoutdelay":
		d := rtp.PlayoutDelayExtension{MinDelay: uint16(c.A), MaxDelay: uint16(c.B)}
		err := d.Unmarshal(raw)
		if short != (err != nil) {
			return ci, fail(d, err)
		}
		if !short {
			v := uint32(raw[0])<<16 | uint32(raw[1])<<8 | uint32(raw[2])
			if uint32(d.MinDelay) != v>>12 || uint32(d.MaxDelay) != v&0xFFF {
				return ci, fail(d, err)
			}
		}
	case "abssendtime":
		d := rtp.AbsSendTimeExtension{Timestamp: c.A}
		err := d.Unmarshal(raw)
		if short != (err != nil) {
			return ci, fail(d, err)
		}
		if !short && d.Timestamp != uint64(raw[0])<<16|uint64(raw[1])<<8|uint64(raw[2]) {
			return ci, fail(d, err)
		}
	case "abscapturetime":
		d := rtp.AbsCaptureTimeExtension{Timestamp: c.A}
		off := c.Offset
		if c.HasOffset {
			d.EstimatedCaptureClockOffset = &off
			ci.class("decode-receiver-had-offset")
		}
		err := d.Unmarshal(raw)
		if short != (err != nil) {
			return ci, fail(d, err)
		}
		if off != c.Offset {
			// the int64 the receiver pointed at is the caller's (another extension value may share it)
			return ci, failf("AbsCaptureTime.Unmarshal(%s) wrote %d through the offset pointer the receiver held before (the caller's variable, was %d)", hx(raw), off, c.Offset)
		}
		if !short {
			if d.Timestamp != binary.BigEndian.Uint64(raw) {
				return ci, fail(d, err)
			}
			if len(raw) >= 16 {
				if d.EstimatedCaptureClockOffset == nil || *d.EstimatedCaptureClockOffset != int64(binary.BigEndian.Uint64(raw[8:])) {
					return ci, fail(d, err)
				}
				// a value copy of the decoded extension is the caller's too: the receiver's next decode must not reach it
				{
					kept := d
					keptOff := *kept.EstimatedCaptureClockOffset
					other := clone(raw)
					for i := 8; i < 16; i++ {
						other[i] ^= 0x5A
					}
					if err := d.Unmarshal(other); err != nil {
						return ci, failf("AbsCaptureTime.Unmarshal(%s): %v", hx(other), err)
					}
					if kept.EstimatedCaptureClockOffset == nil || *kept.EstimatedCaptureClockOffset != keptOff {
						return ci, failf("a value copy of an extension decoded from %s reads offset %v after the receiver decoded %s (was %d)", hx(raw), kept.EstimatedCaptureClockOffset, hx(other), keptOff)
					}
					if err := d.Unmarshal(raw); err != nil {
						return ci, failf("AbsCaptureTime.Unmarshal(%s): %v", hx(raw), err)
					}
				}
				{
					// the next packet of a stream usually carries the same offset: a stored value copy of the first
					// decode and the receiver's second decode are two values, writing through one must not reach the other
					wireOff := int64(binary.BigEndian.Uint64(raw[8:]))
					kept := d
					next := clone(raw)
					next[7]++
					if err := d.Unmarshal(next); err != nil || d.EstimatedCaptureClockOffset == nil {
						return ci, failf("AbsCaptureTime.Unmarshal(%s): %v", hx(next), err)
					}
					*d.EstimatedCaptureClockOffset ^= 0x7F0F
					if kept.EstimatedCaptureClockOffset == nil || *kept.EstimatedCaptureClockOffset != wireOff {
						return ci, failf("a value copy of an extension decoded from %s reads offset %v after the receiver decoded %s (same offset) and the caller wrote through the receiver's pointer", hx(raw), *kept.EstimatedCaptureClockOffset, hx(next))
					}
					// a receiver that already pointed at a variable of the caller holding this very offset
					own := wireOff
					held := rtp.AbsCaptureTimeExtension{Timestamp: c.A, EstimatedCaptureClockOffset: &own}
					if err := held.Unmarshal(raw); err != nil || held.EstimatedCaptureClockOffset == nil {
						return ci, failf("AbsCaptureTime.Unmarshal(%s): %v", hx(raw), err)
					}
					own ^= 0x3C3C
					if *held.EstimatedCaptureClockOffset != wireOff {
						return ci, failf("AbsCaptureTime.Unmarshal(%s) into a receiver that pointed at the caller's variable (same value %d): the decoded offset follows that variable (%d after the caller changed it)", hx(raw), wireOff, *held.EstimatedCaptureClockOffset)
					}
					ci.class("decode-same-offset-again")
					if err := d.Unmarshal(raw); err != nil {
						return ci, failf("AbsCaptureTime.Unmarshal(%s): %v", hx(raw), err)
					}
				}
				// the decoded value belongs to the caller (a relay adds its own clock difference through the
				// pointer): that must not reach what a later decode of the same bytes yields
				*d.EstimatedCaptureClockOffset += 0x100000001
				var again rtp.AbsCaptureTimeExtension
				if err := again.Unmarshal(raw); err != nil || again.EstimatedCaptureClockOffset == nil || *again.EstimatedCaptureClockOffset != int64(binary.BigEndian.Uint64(raw[8:])) {
					return ci, failf("AbsCaptureTime.Unmarshal(%s) after the caller changed the offset of an earlier decode through its pointer yields offset %v (err %v)", hx(raw), again.EstimatedCaptureClockOffset, err)
				}
			} else if d.EstimatedCaptureClockOffset != nil {
				if c.HasOffset && *d.EstimatedCaptureClockOffset == c.Offset {
					if e := r.finding("F22-abscapturetime-stale-offset", "AbsCaptureTime.Unmarshal of %d bytes (no offset field) leaves the receiver's previous EstimatedCaptureClockOffset %d in place", len(raw), c.Offset); e != nil {
						return ci, e
					}

					return ci, nil
				}

				return ci, fail(d, err)
			}
		}
	default:
		return ci, failf("unknown codec %q", c.Codec)
	}
	if !bytes.Equal(raw, c.Raw) {
		return ci, failf("%s.Unmarshal modified its input", c.Codec)
	}

	return ci, nil
}

var c17Codecs = []string{"audiolevel", "transportcc", "playoutdelay", "abssendtime", "abscapturetime"}

func genFixedCase(t *rapid.T) *FixedCase {
	c := &FixedCase{Codec: rapid.SampledFrom(c17Codecs).Draw(t, "codec")}
	c.Voice = genBool(t, "voice")
	switch c.Codec {
	case "audiolevel":
		c.A = uint64(rapid.IntRange(0, 255).Draw(t, "level"))
	case "transportcc":
		c.A = uint64(genU16(t, "seq"))
	case "playoutdelay":
		c.A = uint64(biased(t, "min", 0, 65535, 0, 1, 4094, 4095, 4096, 4097, 8191, 32768))
		c.B = uint64(biased(t, "max", 0, 65535, 0, 1, 4094, 4095, 4096, 4097, 8191, 32768))
		if rapid.IntRange(0, 2).Draw(t, "inrange") != 0 {
			// interior of the valid domain: uniform 12-bit pairs
			c.A = uint64(rapid.IntRange(0, 4095).Draw(t, "minin"))
			c.B = uint64(rapid.IntRange(0, 4095).Draw(t, "maxin"))
		}
	case "abssendtime":
		c.A = rapid.Uint64().Draw(t, "ts")
		if genBool(t, "24bit") {
			c.A &= 0xFFFFFF
		}
	default:
		c.A = rapid.Uint64().Draw(t, "ts")
		c.HasOffset = genBool(t, "hasoffset")
		if c.HasOffset {
			c.Offset = rapid.OneOf(rapid.Int64(), rapid.SampledFrom([]int64{0, 1, -1, 1 << 32, -(1 << 32), 1<<63 - 1, -1 << 63}),
				// whole seconds in Q32.32 (low word zero), either sign
				rapid.Map(rapid.Int64Range(-(1<<31), 1<<31-1), func(s int64) int64 { return s << 32 }),
				rapid.Map(rapid.Int64Range(-20, 20), func(s int64) int64 { return s << 32 })).Draw(t, "offset")
		}
	}
	if genBool(t, "decode") {
		c.Decode = true
		c.PreloadSame = rapid.IntRange(0, 3).Draw(t, "preloadsame") == 0
		size := fixedSize(c.Codec)
		maxLen := size + 2
		if c.Codec == "abscapturetime" {
			maxLen = 18
		}
		l := rapid.IntRange(0, maxLen).Draw(t, "rawlen")
		if rapid.IntRange(0, 5).Draw(t, "longraw") == 0 {
			// trailing bytes are ignored, however many: whole further words, odd tails
			l = size + rapid.SampledFrom([]int{3, 4, 7, 8, 9, 15, 16, 17, 24, 32, 100, 255}).Draw(t, "rawextra")
			if rapid.IntRange(0, 9).Draw(t, "rawhuge") == 6 {
				l = 65536 + rapid.IntRange(0, size+2).Draw(t, "rawhugeextra") // lengths that do not fit 16 bits
			}
		}
		c.Raw = rapid.SliceOfN(rapid.Byte(), l, l).Draw(t, "raw")
		if c.Raw == nil {
			c.Raw = []byte{}
		}
		if rapid.IntRange(0, 2).Draw(t, "commonwire") == 0 {
			// what is most common on the wire: runs of 0x00 / 0xFF (a zero offset, a zero delay, level 127 ...)
			fill := rapid.SampledFrom([]byte{0x00, 0x00, 0xFF}).Draw(t, "commonfill")
			from := rapid.SampledFrom([]int{0, 0, 8, 1}).Draw(t, "commonfrom")
			for k := from; k < len(c.Raw); k++ {
				c.Raw[k] = fill
			}
		}
	}

	return c
}

// enumC17 enumerates the complete finite domains (partitioned across shards).
func enumC17(r *run) bool {
	type dom struct {
		name string
		size int
		mk   func(i int) *FixedCase
		th   bool // thorough only
	}
	doms := []dom{
		{"AudioLevel encode: 2 x 256 (level, voice)", 512, func(i int) *FixedCase {
			return &FixedCase{Codec: "audiolevel", A: uint64(i & 255), Voice: i>>8 == 1}
		}, false},
		{"AudioLevel decode: all 256 first bytes x lengths 0-3 x 2 preloaded receivers", 256 * 4 * 2, func(i int) *FixedCase {
			l := (i >> 8) & 3
			raw := []byte{byte(i), 0xAA, 0x55}[:l]

			return &FixedCase{Codec: "audiolevel", Decode: true, Raw: raw, A: uint64(127 * (i >> 10)), Voice: i>>10 == 1}
		}, false},
		{"TransportCC encode: all 2^16 sequence numbers", 1 << 16, func(i int) *FixedCase {
			return &FixedCase{Codec: "transportcc", A: uint64(i)}
		}, false},
		{"TransportCC decode: all 2^16 two-byte prefixes x lengths 0-4", (1 << 16) * 5, func(i int) *FixedCase {
			l := i >> 16
			raw := []byte{byte(i >> 8), byte(i), 0xAA, 0x55}[:l]

			return &FixedCase{Codec: "transportcc", Decode: true, Raw: raw, A: 0xFFFF}
		}, false},
		{"PlayoutDelay encode: all 2^24 in-range (min,max) pairs", 1 << 24, func(i int) *FixedCase {
			return &FixedCase{Codec: "playoutdelay", A: uint64(i >> 12), B: uint64(i & 0xFFF)}
		}, true},
		{"PlayoutDelay encode: boundary rows min in {0,1,4095} x all max, all min x max in {0,1,4095}", 6 * 4096, func(i int) *FixedCase {
			k, v := i/4096, uint64(i%4096)
			fix := []uint64{0, 1, 4095}[k%3]
			if k < 3 {
				return &FixedCase{Codec: "playoutdelay", A: fix, B: v}
			}

			return &FixedCase{Codec: "playoutdelay", A: v, B: fix}
		}, false},
		{"PlayoutDelay encode/decode: 2^17 pairs spread over the 2^24 in-range pairs (x127 and x8191 strides)", 1 << 17, func(i int) *FixedCase {
			v := (i * 127) & 0xFFFFFF
			if i&1 == 1 {
				v = (i * 8191) & 0xFFFFFF
			}
			if i&2 == 2 {
				return &FixedCase{Codec: "playoutdelay", Decode: true, Raw: []byte{byte(v >> 16), byte(v >> 8), byte(v), 0x11}, A: 1, B: 2}
			}

			return &FixedCase{Codec: "playoutdelay", A: uint64(v >> 12), B: uint64(v & 0xFFF)}
		}, false},
		{"AbsSendTime encode/decode: 2^17 values spread over the 24-bit range (x127 and x8191 strides)", 1 << 17, func(i int) *FixedCase {
			v := uint64((i * 127) & 0xFFFFFF)
			if i&1 == 1 {
				v = uint64((i * 8191) & 0xFFFFFF)
			}
			if i&2 == 2 {
				return &FixedCase{Codec: "abssendtime", Decode: true, Raw: []byte{byte(v >> 16), byte(v >> 8), byte(v)}, A: 0xABCDEF}
			}

			return &FixedCase{Codec: "abssendtime", A: v | uint64(i)<<24}
		}, false},
		{"PlayoutDelay out of range: min or max in 4096..65535 step 1 against 0/4095/65535", 2 * 3 * (65536 - 4096), func(i int) *FixedCase {
			per := 65536 - 4096
			v := uint64(4096 + i%per)
			k := i / per
			other := []uint64{0, 4095, 65535}[k%3]
			if k < 3 {
				return &FixedCase{Codec: "playoutdelay", A: v, B: other}
			}

			return &FixedCase{Codec: "playoutdelay", A: other, B: v}
		}, false},
		{"PlayoutDelay decode: all 2^24 three-byte strings", 1 << 24, func(i int) *FixedCase {
			return &FixedCase{Codec: "playoutdelay", Decode: true, Raw: []byte{byte(i >> 16), byte(i >> 8), byte(i)}, A: 4095, B: 4095}
		}, true},
		{"AbsSendTime encode: all 2^24 values", 1 << 24, func(i int) *FixedCase {
			return &FixedCase{Codec: "abssendtime", A: uint64(i)}
		}, true},
		{"AbsSendTime decode: all 2^24 three-byte strings", 1 << 24, func(i int) *FixedCase {
			return &FixedCase{Codec: "abssendtime", Decode: true, Raw: []byte{byte(i >> 16), byte(i >> 8), byte(i)}, A: 0xFFFFFF}
		}, true},
		{"AbsSendTime encode/decode: 2^16 values spread over the 24-bit range (x257)", 1 << 16, func(i int) *FixedCase {
			v := uint64(i) * 257 & 0xFFFFFF
			if i&1 == 1 {
				return &FixedCase{Codec: "abssendtime", Decode: true, Raw: []byte{byte(v >> 16), byte(v >> 8), byte(v), 0xEE}, A: 1}
			}

			return &FixedCase{Codec: "abssendtime", A: v}
		}, false},
		{"short/long inputs: every codec x every length 0..size+2 (abs-capture-time 0..18) x receiver with/without offset", 5 * 19 * 2, func(i int) *FixedCase {
			codec := c17Codecs[i%5]
			l := (i / 5) % 19
			maxLen := fixedSize(codec) + 2
			if codec == "abscapturetime" {
				maxLen = 18
			}
			if l > maxLen {
				l = maxLen
			}
			raw := make([]byte, l)
			for k := range raw {
				raw[k] = byte(0x91 + 7*k)
			}

			return &FixedCase{Codec: codec, Decode: true, Raw: raw, A: 77, B: 88, Voice: true, HasOffset: i/(5*19) == 1, Offset: -12345, PreloadSame: i%2 == 1}
		}, false},
	}
	for _, d := range doms {
		if d.th && !thorough() {
			continue
		}
		var total int64
		classes := map[string]int64{}
		for i := 0; i < d.size; i++ {
			if !mine(i) {
				continue
			}
			c := d.mk(i)
			info, err := subC17.exec(r, c)
			total++
			_ = info
			if err != nil {
				subC17.one(r, c)

				return false
			}
		}
		classes["enum:"+d.name] = total
		r.col.Bulk("enum", total, total, classes)
		r.col.Exhaustive("C17 "+d.name, envShards == 1)
	}
	r.col.AddSample("enum", map[string]any{"codec": "playoutdelay", "a": 4095, "b": 0, "note": "enumerated domains are listed under exhaustive_subdomains"})

	return true
}

const ruleC17 = "complete enumeration of the finite value domains (AudioLevel 2x256, TransportCC 2^16, PlayoutDelay boundary rows and out-of-range values in quick / all 2^24 pairs in thorough, AbsSendTime 2^16 spread values in quick / all 2^24 in thorough, every input length 0..size+2 with preloaded receivers) plus rapid-drawn cases for the 64-bit domains (AbsSendTime 64-bit timestamps, AbsCaptureTime timestamps with/without int64 offsets) and random decode inputs of every length 0..size+2 and of size+{3..255}, occasionally 65536+{0..size+2} (a third of them with runs of 0x00/0xFF, e.g. a zero offset field); oracle: hand-written bit layouts of the specifications, error and no bytes for out-of-range values, decode independent of previous receiver content, trailing bytes ignored, short input rejected, Unmarshal(Marshal(v)) = v, and Marshal gives the same bytes again after the caller overwrote and appended to the buffer an earlier call returned; a decoded AbsCaptureTime offset is changed through its pointer and the same bytes decoded again; a value copy of a decoded extension keeps its offset when the receiver decodes other bytes, or the same offset again and the caller writes through the receiver's pointer; a receiver that pointed at a variable of the caller holding the very offset on the wire yields an offset that does not follow that variable. Every case is non-trivial (each checks one value or one input against the layout); distinct = enumerated values are distinct by construction, drawn ones by FNV-64 of the JSON case"

func TestC17(t *testing.T) {
	r := begin(t, "C17", "exploration", ruleC17)
	defer r.finish()
	if !enumC17(r) {
		return
	}
	subC17.rapidRun(r, n(30000, 3000000), genFixedCase)
	_ = fmt.Sprint
}
