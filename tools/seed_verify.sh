#!/bin/bash
# seed_verify.sh <seed-id> <worktree> <demo-dir-relative (. or codecs)> <property> [more properties...]
# Confirms an independently written breaking change in its scratch worktree, stores it
# under /verif/seeded/<seed-id>/, runs the property's quick check against it in /repo
# (patch applied to the working tree only, reverted straight afterwards).
set -u
export GOFLAGS=-mod=mod GOPROXY=off GOSUMDB=off GOTOOLCHAIN=local
ID=$1; WT=$2; DEMODIR=$3; shift 3; PROPS="$@"
OUT=/verif/seeded/$ID; mkdir -p $OUT
cd $WT || exit 2
git diff -- . ':(exclude)_seed' > $OUT/patch.diff
cp _seed/demo_test.go $OUT/demo_test.go
cp _seed/notes.md $OUT/notes.md 2>/dev/null
R1=$( (go build ./... && go test -count=1 ./... ) 2>&1 | grep -cE "^(FAIL|---)" )
cp _seed/demo_test.go $DEMODIR/zz_seed_demo_test.go
go test -count=1 -run 'TestSeedDemo' ./$DEMODIR > $OUT/demo_with_change.log 2>&1; R2=$?
git apply -R $OUT/patch.diff
go test -count=1 -run 'TestSeedDemo' ./$DEMODIR > $OUT/demo_without_change.log 2>&1; R3=$?
git apply $OUT/patch.diff
rm -f $DEMODIR/zz_seed_demo_test.go
echo "suite-failures-with-change=$R1 demo-with-change-exit=$R2 (want !=0) demo-without-change-exit=$R3 (want 0)"
cd /verif
[ -z "$(git -C /repo status --short)" ] || { echo "/repo dirty"; exit 2; }
git -C /repo apply $OUT/patch.diff || { echo "patch does not apply to /repo"; exit 2; }
RES=""
for P in $PROPS; do
  ./check $P quick > $OUT/check_$P.log 2>&1; RC=$?
  RES="$RES $P:exit$RC"
  grep -m2 -E "^VIOLATION|^  sub-check" $OUT/check_$P.log | cut -c1-300
done
git -C /repo checkout -- .
echo "checks:$RES"
cat > $OUT/verify.txt <<EOT
suite-failures-with-change=$R1
demo-with-change-exit=$R2
demo-without-change-exit=$R3
checks:$RES
EOT
