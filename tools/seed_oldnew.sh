#!/bin/bash
# seed_oldnew.sh <seed-worktree> <property> [dev-harness-dir]  — runs the COMMITTED (HEAD) harness and the WORKING-TREE harness
# of that property against a seed worktree, without touching /repo. Prints "old=<ok|FAIL> new=<ok|FAIL>".
export GOFLAGS=-mod=mod GOPROXY=off GOSUMDB=off GOTOOLCHAIN=local
WT=$1; P=$2; DEV=${3:-/verif/harness}
run() { # dir
  (cd $1 && sed -i "s#=> /repo#=> $WT#" go.mod && VERIF_TIER=quick VERIF_SCALE=3 VERIF_REPLAY_DIR=$1/replays VERIF_KNOWN=/verif/known_findings.json go test -tags verif -count=1 -run "^Test$P\$" . 2>&1 | grep -E "^(ok|FAIL)" | head -1 | sed 's/.*build failed.*/BUILD-FAILED/' | cut -c1-12 | awk '{print $1}')
}
rm -rf /tmp/hs-old /tmp/hs-new; mkdir -p /tmp/hs-old
git -C /verif archive HEAD harness | tar -x -C /tmp/hs-old
cp -r $DEV /tmp/hs-new
O=$(run /tmp/hs-old/harness); N=$(run /tmp/hs-new)
echo "$P old=$O new=$N"
rm -rf /tmp/hs-old /tmp/hs-new
