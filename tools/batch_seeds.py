# batch_seeds.py <spec.json> [id-substring ...] - verify a round of seeded changes: tools/seed_verify.sh + tools/seed_meta.py + history note (spec entries: id, wt, dir, props, round, kind, old, needs, hist)
import json,subprocess,sys
spec=json.load(open(''+(sys.argv[1])+''))
only=sys.argv[2:]
for s in spec:
    if only and not any(o in s['id'] for o in only): continue
    r=subprocess.run(['/verif/tools/seed_verify.sh',s['id'],s['wt'],s['dir']]+s['props'],capture_output=True,text=True)
    print(s['id'],'|',r.stdout.strip().splitlines()[-1] if r.stdout.strip() else r.stderr[-300:],flush=True)
    if s['kind']=='blind':
        origin="independent sub-agent, round %d: given only the property text, a scratch worktree of /repo and one-line descriptions of the earlier seeded changes for this property (to pick a different mechanism); nothing from /verif"%s['round']
    else:
        origin="adversarial sub-agent, round %d: besides the property text the author was given a prose description of the generators' DOMAINS and oracles (not the code, nothing from /verif) and asked for a change a strong suite would still miss"%s['round']
    subprocess.run(['python3','/verif/tools/seed_meta.py',s['id'],s['props'][0],origin,s['needs']],capture_output=True,text=True)
    mp='/verif/seeded/%s/meta.json'%s['id']
    m=json.load(open(mp))
    if s['old']=='ok':
        m['history']="The harness as committed before this round did NOT detect it with this property's check (tools/seed_oldnew.sh: old=ok); "+s['hist']+". Re-run: see checks_run_against_it."
    else:
        m['history']="Detected at once by the harness as committed before this round (tools/seed_oldnew.sh: old=FAIL)."
    json.dump(m,open(mp,'w'),indent=1)
