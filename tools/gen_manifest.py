#!/usr/bin/env python3
"""Generates /verif/MANIFEST.json from the table below (single source of truth)."""
import json, os
ROOT = os.path.dirname(os.path.dirname(os.path.abspath(__file__)))

BASELINE_OFF = "cd /repo && go build ./... && go test -vet=off -count=1 -timeout 25m ./..."

# id -> (level, technique, level text, level note, design ref)
CHECKS = {}

def add(pid, level, technique, text, note, ref):
    CHECKS[pid] = dict(level=level, technique=technique, text=text, note=note, ref=ref)

exec(open(os.path.join(ROOT, "tools", "manifest_table.py")).read())

props = [json.loads(l)["id"] for l in open(os.path.join(ROOT, "properties.jsonl")) if l.strip()]
checks, na = [], []
for pid in props:
    if pid in CHECKS:
        c = CHECKS[pid]
        checks.append({
            "property_id": pid,
            "quick_cmd": "./check %s quick" % pid,
            "thorough_cmd": "./check %s thorough" % pid,
            "evidence_file": "/verif/evidence/%s.json" % pid,
            "replay_cmd_template": "./check --replay {path}",
            "engine": "harness",
            "level_claimed": {"category": c["level"], "text": c["text"], "design_ref": c["ref"]},
            "level_note": c["note"],
            "technique": c["technique"],
        })
    else:
        na.append({"property_id": pid, "reason": NOT_YET.get(pid, "check not built yet in this session; planned in DESIGN.md section 4")})

hooks_commits = [l.strip() for l in open(os.path.join(ROOT, "tools", "hook_commits.txt")) if l.strip()]
doc = {
    "version": 1,
    "setup_cmd": "./check --setup",
    "hooks": {
        "guard": "verif",
        "enable": "go build tag: go test -tags verif (the harness module replaces github.com/pion/rtp with /repo)",
        "baseline_off_cmd": BASELINE_OFF,
        "source_commits": hooks_commits,
        "add_only": True,
    },
    "engines": [{
        "name": "harness",
        "path": "/verif/harness",
        "serves_properties": [c["property_id"] for c in checks],
        "kind_free_text": "Go test binary (pgregory.net/rapid v1.3.0 generators and state machines, exhaustive enumerators, native go fuzz targets) driven by /verif/check; independent reference codecs under harness/ref",
    }],
    "checks": checks,
    "not_applicable": na,
    "notes": NOTES,
}
with open(os.path.join(ROOT, "MANIFEST.json"), "w") as f:
    json.dump(doc, f, indent=1)
    f.write("\n")
print("claimed:", [c["property_id"] for c in checks], "not claimed:", [n["property_id"] for n in na])
