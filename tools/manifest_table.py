# Table consumed by gen_manifest.py (exec'd): add(id, level, technique, text, note, design_ref)
NOT_YET = {}
NOTES = ("All checks are property-based tests / fuzzers over generated inputs with explicit oracles; "
         "see DESIGN.md. Exit codes: 0 held, 1 violation (VIOLATION line), 2 infrastructure/inconclusive.")

add("C01", "exploration", "property-based round-trip testing (rapid) with an independent RFC 3550/8285 reference parser as second oracle",
    "Generated well-formed packets (all extension profiles, CSRC counts, padding, empty payloads) are marshalled, checked against MarshalSize and an independent strict RFC parser, and unmarshalled back; failures shrink to a JSON replay. Exploration is the right level: the domain is unbounded and the oracle is executable.",
    "Trusted base: harness/ref/rtpwire (my reading of RFC 3550 5.1/5.3.1 and RFC 8285), rapid's generators; absence of violations only for the cases explored (counts in the evidence file).",
    "DESIGN.md 4/C01")
