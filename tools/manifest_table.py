# Table consumed by gen_manifest.py (exec'd): add(id, level, technique, text, note, design_ref)
NOT_YET = {}
NOTES = ("All checks are property-based tests / fuzzers over generated inputs with explicit oracles; "
         "see DESIGN.md. Exit codes: 0 held, 1 violation (VIOLATION line), 2 infrastructure/inconclusive.")

add("C01", "exploration", "property-based round-trip testing (rapid) with an independent RFC 3550/8285 reference parser as second oracle",
    "Generated well-formed packets (all extension profiles, CSRC counts, padding, empty payloads) are marshalled, checked against MarshalSize and an independent strict RFC parser, and unmarshalled back; failures shrink to a JSON replay. Exploration is the right level: the domain is unbounded and the oracle is executable.",
    "Trusted base: harness/ref/rtpwire (my reading of RFC 3550 5.1/5.3.1 and RFC 8285), rapid's generators; absence of violations only for the cases explored (counts in the evidence file).",
    "DESIGN.md 4/C01")

add("C02", "exploration", "property-based fuzzing of the parser (rapid: random strings, grammar images and byte-level mutants; exhaustive structured enumeration) with a certificate-walk oracle and a fresh-vs-reused metamorphic relation",
    "Hostile inputs are decoded with panic capture; every accepted parse is certified against the input bytes by an independent walk (offsets, lengths, values, padding), Header and Packet must agree, and a receiver that decoded an earlier hostile input must equal a fresh one. The accept set is deliberately not predicted, so the check is sound on every byte string.",
    "Trusted base: the certificate walk in harness/c02_test.go and the reference builder used to seed mutants. Exploration only: absence of panics is shown for the inputs generated (counts in evidence), plus a complete enumeration of short structured packets over a boundary alphabet.",
    "DESIGN.md 4/C02")
add("C03", "exploration", "property-based differential testing against an independent RFC 3550/8285 builder/parser (rapid), re-encode stability as a metamorphic relation on all accepted mutants",
    "Images laid out by a reference builder in every way the RFCs allow must decode to the values they were built from, into a fresh receiver and into one that decoded another packet first; every accepted input must re-encode stably (byte-identical when canonical); the standalone HeaderExtension views must read and re-serialise the same block. One known finding (id-15 payload offset, pinned by an existing unit test) is excluded by its exact signature and counted.",
    "Trusted base: harness/ref/rtpwire (my reading of the RFCs; two-byte profile = 0x1000 exactly as the library documents). Accept-set questions outside well-formed images are not asserted.",
    "DESIGN.md 4/C03")
add("C04", "exploration", "property-based testing (rapid) of MarshalTo against Marshal over generated packets x destination lengths x dirty buffers",
    "For generated packets, destination lengths around every threshold and dirty prior contents: short buffers must give io.ErrShortBuffer with n=0, sufficient ones exactly Marshal()'s bytes with everything beyond untouched (also into spare capacity, and written back in place over the image the packet was decoded from after editing fields, padding, or extensions); same for Header.MarshalTo.",
    "Trusted base: Marshal() as reference for MarshalTo (Marshal itself is checked against the independent parser in C01).",
    "DESIGN.md 4/C04")
add("C05", "exploration", "model-based stateful property testing (rapid-drawn operation sequences against an ordered-map model, with a wire round trip as an operation)",
    "Operation sequences Set/Del/Get/Wire over five start states are run against an ordered-map model that follows the API's return values; after every step all observables must match, an erroring call must leave the header (including its Marshal bytes) unchanged, nothing may panic and every accepted value must survive Marshal/Unmarshal.",
    "The model does not predict which calls are rejected (only that accepted ones are representable); histories are bounded to 25 operations.",
    "DESIGN.md 4/C05")
add("C20", "exploration", "property-based metamorphic testing (rapid): clone equality and non-interference under single mutations",
    "Generated packets (API-built or decoded from one wire buffer) are cloned; the clone must be observably equal (fields, ids, values, Marshal bytes) and a mutation of either side (payload byte, CSRC, extension value through the returned slice, Set/Del, scalars) must leave the other side's observables and Marshal bytes unchanged; same for Header.Clone.",
    "Observables are the exported fields and accessors; nil-vs-empty distinctions are not asserted.",
    "DESIGN.md 4/C20")

add("C06", "exploration", "model-based stateful property testing (rapid-drawn Packetize/SkipSamples/GeneratePadding histories, payloader spy, injected clock)",
    "Histories of packetizer calls over eleven payloaders (plus a scripted stub) are checked against a sequence/timestamp model with learned initial values; payloads must equal the spied fragments, fixed fields, marker and the abs-send-time value (exact 6.18 encoding of an injected instant) are checked, every packet must fit the MTU and survive marshal/parse, padding packets must be valid padding-only RTP; every packet returned earlier must still serialise to the same bytes at the end of the history.",
    "Needs the build-tag hook VerifSetPacketizerClock to inject the clock (one case in eight leaves the default clock and brackets the value between two readings of the wall clock); the payloader's own output is trusted here (C08, C10-C14 check it); MTU bound is not asserted for padding packets or Opus payloads larger than the budget.",
    "DESIGN.md 4/C06")
add("C07", "exploration", "stress-generated concurrent histories (rapid-drawn plans) decided by an exact linearizability checker for the counter specification, half of the runs under the Go race detector; exhaustive sequential sweep over all start values (thorough)",
    "Plans (goroutines, op mix, yield pattern, GOMAXPROCS, start value) are drawn by rapid, executed against the real sequencer with invocation/response stamps, and the whole history is decided exactly (greedy with exchange argument; the checker is self-tested on illegal histories). Sequential sweeps check value order and RollOverCount = zeros issued after every call; random sequencers must start below 2^15, survive concurrent first calls and two wraps; the sequencer is also driven through a Packetizer, sequentially and concurrently with direct callers.",
    "Interleavings are chosen by the Go scheduler, not enumerated: absence of a violation speaks only for the schedules that occurred. The race detector only sees races on executed paths.",
    "DESIGN.md 4/C07")

add("C16", "exploration", "exhaustive enumeration of a (length x MTU x fill) rectangle plus property-based testing (rapid) with a concatenation/fragment-size oracle and a scribble (aliasing) relation",
    "All (len 0-64) x (MTU 1-70) x 4 fill patterns are enumerated for G711/G722 and all short lengths for Opus/OpusPacket; beyond that rapid draws lengths up to 10000 and MTUs up to 65535 biased to k*MTU+-1. The oracle states the split law directly (concatenation, all-but-last = MTU, fragment count) and checks Opus pass-through without aliasing by overwriting either side.",
    "The rectangle is literally complete; the rest is sampled. nil inputs are covered by C08.",
    "DESIGN.md 4/C16")
add("C17", "exploration", "exhaustive enumeration of the finite value domains against hand-written bit layouts, plus property-based testing (rapid) for the 64-bit domains and all input lengths",
    "AudioLevel, TransportCC, PlayoutDelay (boundary rows quick / all 2^24 pairs thorough, all out-of-range rows), AbsSendTime (2^16 spread quick / all 2^24 thorough) are enumerated against the specification layouts; AbsCaptureTime and 64-bit AbsSendTime values are drawn; every codec is decoded from every length 0..size+2 into receivers preloaded with other values.",
    "Trusted base: the layouts written out in harness/c17_test.go from the extension specifications. Enumerated sub-domains are listed in the evidence; 64-bit domains are sampled.",
    "DESIGN.md 4/C17")
add("C18", "exploration", "property-based testing (rapid) with boundary-concentrated generators against an exact big.Int NTP reference and the stated tolerances",
    "Instants concentrated around 64 s wrap points, whole seconds and era edges, delays up to the stated bound (incl. those that carry the receive time across a wrap) and offsets up to +-2^31 s are drawn; the oracle is integer arithmetic only: 1 ns for capture time and offset (sign included), [-1 ns, 3816 ns] for the send-time estimate, and exact equality of the NTP / 6.18 encodings with a big.Int reference.",
    "Trusted base: harness/ref/ntp (big.Int). The domain is sampled (about 2^61 instants x 2^36 delays), boundary regions are generated by construction.",
    "DESIGN.md 4/C18")
add("C19", "exploration", "property-based differential testing (rapid) against an independent video-layers-allocation00 encoder/decoder, exhaustive enumeration of all slot assignments, mutation fuzzing of the decoder",
    "Marshal must equal the reference encoder byte for byte for every drawn or enumerated valid allocation (all 69904 stream x spatial slot assignments), Unmarshal must consume everything and return an equal value also into a used receiver, single-defect invalid allocations must be rejected, and hostile inputs (random, mutated encodings, with an earlier decode) must not panic nor over-report consumed bytes. One known finding (a bitrate of 2^56 or more is written as the specification's nine-byte field and read back as another value) is excluded by its exact signature and counted.",
    "Trusted base: harness/ref/vla and ref/leb128 (my reading of the specification; shared bitmask only when every stream below the count has the same mask).",
    "DESIGN.md 4/C19")

add("C10", "exploration", "property-based differential testing (rapid) of H264Payloader/H264Packet against an independent RFC 6184 parser, reassembler and encoder",
    "Generated access-unit sequences (all NAL types 1-23, sizes around every fragmentation threshold, SPS/PPS pairs across calls, MTU 3 upward) are packetised; an independent parser checks every payload's shape (single/STAP-A/FU-A, S/E, >=2 fragments, MTU), an independent reassembler recovers the units byte-exactly and H264Packet must output exactly what the reference depacketizer does, payload by payload, in Annex-B and AVC framing; a second sub-check feeds H264Packet streams from an independent encoder (arbitrary legal packetisations).",
    "Trusted base: harness/ref/h264rtp (my reading of RFC 6184). Input domain is the statement's: start-code-free bodies, non-zero last byte, parameter sets as adjacent pairs.",
    "DESIGN.md 4/C10")
add("C11", "exploration", "property-based differential testing (rapid) of VP8Payloader/VP8Packet against an independent RFC 7741 descriptor builder/parser; exhaustive first-two-octet enumeration (thorough)",
    "Frames around every split threshold with the running picture id steered to 0/127/128/32767 are packetised and every packet is read by VP8Packet and by the reference parser (concatenation, S bit, PID 0, picture id form and progression, MTU); reference-built descriptors with all flag combinations, arbitrary field values, reserved bits and all truncations are decoded by VP8Packet preloaded with other values.",
    "Trusted base: harness/ref/vp8desc. Acceptance of a packet that ends right after the descriptor is not asserted.",
    "DESIGN.md 4/C11")
add("C12", "exploration", "property-based differential testing (rapid) of VP9Payloader/VP9Packet/vp9.Header against an independent RFC 9628 descriptor codec and an independent uncompressed-header bit writer",
    "Frames whose uncompressed header is written bit by bit by the harness (all profiles, colour configurations, 16-bit sizes, garbage in reserved bits) are packetised in both modes; every packet is read by VP9Packet and the reference parser (concatenation, B/E, picture id, P, scalability structure width/height, MTU); reference-built descriptors including scalability structures with up to 255 picture groups and all truncations are decoded (every carried field equals the model, every field the descriptor does not carry is zero or empty, also on receivers used before); vp9.Header.Unmarshal is compared field by field with the writer and must reject short prefixes.",
    "Trusted base: harness/ref/vp9desc, ref/vp9hdr. SID limited to 0-4 (library's documented maximum of 5 spatial layers); P/SS of show_existing_frame frames and frame size 65536 not asserted.",
    "DESIGN.md 4/C12")
add("C14", "exploration", "property-based differential testing (rapid) of H265Payloader/H265Packet against an independent RFC 7798 parser, reassembler and encoder; exhaustive enumeration of the header accessor domains",
    "NAL unit sequences around every threshold are packetised under all option combinations; each payload is parsed by the reference and by H265Packet (all accessors compared), shapes (single, AP minima, FU S/E/FuType/F/layer/TID, DONL placement) and byte-exact reassembly are checked; reference-built single/AP/FU/PACI(+TSCI) payloads with DONL/DOND and every truncation go through H265Packet; all 2^16 payload headers, 2^8 FU headers, 2^16 PACI words and TSCI triples (2^24 thorough) are enumerated. One known finding (DONL in every FU, pinned by a unit test) is excluded by exact signature and counted.",
    "Trusted base: harness/ref/h265rtp. DON values are not asserted, only field placement; AP header F bit not asserted.",
    "DESIGN.md 4/C14")

add("C08", "exploration", "property-based fuzzing of all payloaders (rapid; grammar-seeded and mutated inputs, degenerate MTUs) with an arena/guard-byte oracle and a twin/scribble metamorphic relation for ownership",
    "Call sequences on one payloader instance over fourteen payloader configurations; inputs sit between guard bytes with spare capacity, are overwritten after every call, and a twin instance is fed pristine copies: no panic, fragment sizes within the MTU, non-empty fragments, arena untouched, earlier fragments unchanged and later outputs equal to the twin's.",
    "Ownership is observed through behaviour (overwrite-and-compare), not by inspecting pointers; Opus is exempt from the MTU bound by design.",
    "DESIGN.md 4/C08")
add("C09", "exploration", "property-based fuzzing of all depacketizers (rapid; valid trains, reference-built payloads, mutants, nil/empty) with fresh-vs-reused and twin/scribble relations; exhaustive enumeration of all short byte strings",
    "Step sequences Unmarshal/IsPartitionHead/IsPartitionTail over twelve receiver configurations: no panic, input unmodified; per-packet formats must give the same result, error-ness and metadata as a fresh receiver; H264Packet and AV1Depacketizer get each payload in a buffer that is overwritten right after the call and must agree with a twin fed pristine copies at every step; every byte string of length <=2 (quick) / <=3 (thorough) is fed to every receiver, fresh and with a pending fragment.",
    "Metadata after a failed Unmarshal and reuse semantics of the deprecated AV1Packet are not asserted (panic-freedom only); the zero-allocation H264Packet mode returns its input by design and is only checked for panics.",
    "DESIGN.md 4/C09")
add("C13", "exploration", "property-based differential testing (rapid) of AV1Payloader/AV1Depacketizer/AV1Packet+frame.AV1 against an independent AV1 RTP aggregation parser and reassembler; exhaustive enumeration of OBU headers (2^16) and, in the thorough tier, of all 2^32 LEB128 values",
    "OBU sequences (all types, extension ids from a small alphabet, sizes at every LEB128 and MTU boundary, size field omitted on the last OBU, non-minimal size encodings) are packetised; an independent parser checks W/Z/Y/size-flag/empty-element/layer rules and the MTU, an independent reassembler recovers the OBUs byte-exactly, and both library depacketizer paths must reproduce them; LEB128 and OBU header codecs are compared with independent implementations over their complete domains.",
    "Trusted base: harness/ref/av1rtp, ref/leb128 (my reading of the AV1 RTP specification). Cases are bounded to about 600 packets because the library's reassemblers copy the growing fragment per packet.",
    "DESIGN.md 4/C13")
add("C15", "fault_enumeration", "exhaustive enumeration of delivery subsets (all 2^n loss patterns of a generated frame of up to 10 packets) inside rapid-generated (frame A, frame B, garbage prefix) cases, differential against a fresh depacketizer",
    "For each generated case every subset of frame A's packets is delivered in order (after optional garbage), then the intact frame B; every packet of B must decode exactly as on a fresh receiver (bytes, error-ness, AV1 Z/Y/N). The loss patterns of a frame are enumerated completely, the frames themselves are sampled.",
    "Frames of more than 10 packets get 1024 drawn subsets instead of all; reordering and duplication are outside the property.",
    "DESIGN.md 4/C15")
