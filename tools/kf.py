#!/usr/bin/env python3
"""kf.py add <property> <key> <known|fixed> <commit|-> <sub> <witness.json|inline-json> <what...>  — append an entry to known_findings.json"""
import json, sys, os
ROOT = os.path.dirname(os.path.dirname(os.path.abspath(__file__)))
path = os.path.join(ROOT, "known_findings.json")
doc = json.load(open(path))
_, cmd, prop, key, status, commit, sub, wit, *what = sys.argv
what = " ".join(what)
if os.path.exists(wit):
    w = json.load(open(wit))
    if "case" in w and "property" in w:
        w = w["case"]
else:
    w = json.loads(wit)
doc["findings"] = [f for f in doc["findings"] if not (f["property"] == prop and f["key"] == key)]
e = {"property": prop, "key": key, "status": status}
if status == "fixed":
    e["commit"] = commit
    e["line"] = "fixed: property=%s %s %s" % (prop, commit, what)
else:
    e["line"] = "known: property=%s %s" % (prop, what)
e.update({"what": what, "sub": sub, "witness": w})
doc["findings"].append(e)
json.dump(doc, open(path, "w"), indent=1)
open(path, "a").write("\n")
print("ok", prop, key, status)
