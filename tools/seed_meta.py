#!/usr/bin/env python3
"""seed_meta.py <seed-id> <property> <origin> <needs...> — writes /verif/seeded/<id>/meta.json from verify.txt"""
import json, os, sys
sid, prop, origin = sys.argv[1:4]
needs = " ".join(sys.argv[4:])
d = "/verif/seeded/" + sid
v = dict(l.strip().split("=", 1) if "=" in l and not l.startswith("checks") else ("checks", l.strip()[7:].strip()) for l in open(d + "/verify.txt") if l.strip())
checks = dict(x.split(":exit") for x in v.get("checks", "").split())
meta = {
    "breaks_property": prop,
    "origin": origin,
    "needs_to_manifest": needs,
    "confirmed": {
        "compiles_and_existing_suite_passes_with_change": v.get("suite-failures-with-change") == "0",
        "demonstration_fails_with_change": v.get("demo-with-change-exit") != "0",
        "demonstration_passes_without_change": v.get("demo-without-change-exit") == "0",
        "how": "tools/seed_verify.sh in the author's scratch worktree (go build ./... && go test ./...; go test -run TestSeedDemo with the change and with the change stashed)",
    },
    "checks_run_against_it": {p: ("VIOLATION (exit 1)" if rc == "1" else "not detected (exit %s)" % rc) for p, rc in checks.items()},
    "files": ["patch.diff", "demo_test.go", "notes.md", "verify.txt"] + ["check_%s.log" % p for p in checks],
}
json.dump(meta, open(d + "/meta.json", "w"), indent=1)
print(json.dumps(meta["checks_run_against_it"]))
